#!/bin/sh
# tools/selftest.sh <Cxx>[-name]   must-fail corpus of the thorough tier (see tools/selftest.py)
exec python3 /verif/tools/selftest.py "$@"
