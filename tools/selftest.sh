#!/bin/sh
# tools/selftest.sh <Cxx>   must-fail corpus of the thorough tier.
# Copies /repo's working tree to a scratch directory under /tmp, applies each one-line edit of selftest/<Cxx>.tsv in
# turn (columns: name, file, sed expression, substring of the obligation expected to fail, functions to restrict the
# run to or '-'), runs the quick check there and requires a violation. Prints SELFTEST lines; never changes the exit
# status of the check (an undetected edit is a weakness of the contracts, not a violation by /repo). Adds the result to
# evidence/<Cxx>.json under coverage.selftest.
name=$1
prop=${name%%-*}   # selftest/C09-r2.tsv is a second corpus for the C09 check
cd /verif || exit 0
corpus=selftest/$name.tsv
[ -f $corpus ] || { echo "SELFTEST $prop: no corpus"; exit 0; }
W=/tmp/verif-selftest-$name-$$
rm -rf $W; mkdir -p $W/repo $W/verif
rsync -a --exclude .git /repo/ $W/repo/
cp known_findings.json $W/verif/
total=0; killed=0; skipped=0; weak=""
while IFS="$(printf '\t')" read -r name file expr expect only; do
  case "$name" in ''|'#'*) continue;; esac
  total=$((total+1))
  cp $W/repo/$file $W/orig.go
  sed -i "$expr" $W/repo/$file
  if cmp -s $W/repo/$file $W/orig.go; then
    skipped=$((skipped+1)); echo "SELFTEST $prop $name: skipped (edit no longer applies)"
    continue
  fi
  if ! (cd $W/repo && GOFLAGS=-mod=mod GOPROXY=off GOSUMDB=off GOTOOLCHAIN=local go build ./... >/dev/null 2>&1); then
    skipped=$((skipped+1)); echo "SELFTEST $prop $name: skipped (the edited tree does not compile)"
    cp $W/orig.go $W/repo/$file
    continue
  fi
  if [ "$only" != "-" ] && [ -n "$only" ]; then export VERIF_ONLY="$only"; else unset VERIF_ONLY; fi
  VERIF_REPO=$W/repo VERIF_DIR=$W/verif bin/govc check $prop quick > $W/log 2>&1
  unset VERIF_ONLY
  cp $W/orig.go $W/repo/$file
  if grep -q "^VIOLATION" $W/log && grep "failed obligation" $W/log | grep -qF -- "$expect"; then
    killed=$((killed+1)); echo "SELFTEST $prop $name: detected ($(grep 'failed obligation' $W/log | grep -F -- "$expect" | head -1 | sed 's/^ *failed obligation \([^ ]*\).*/\1/'))"
  elif grep -q "^VIOLATION" $W/log; then
    killed=$((killed+1)); echo "SELFTEST $prop $name: detected by another obligation ($(grep 'failed obligation' $W/log | head -1 | sed 's/^ *failed obligation \([^ ]*\).*/\1/')), expected $expect"
  else
    weak="$weak $name"; echo "SELFTEST-WEAKNESS: $prop $name is not detected (expected $expect)"
  fi
done < $corpus
rm -rf $W
echo "SELFTEST $prop: $total edits, $killed detected, $skipped skipped,$( [ -n "$weak" ] && echo " undetected:$weak" || echo " none undetected")"
[ "$SELFTEST_EVIDENCE" = "1" ] || exit 0
python3 - "$prop" "$total" "$killed" "$skipped" "$weak" <<'PY'
import json,sys
prop,total,killed,skipped,weak=sys.argv[1:6]
p='/verif/evidence/%s.json'%prop
try:
    d=json.load(open(p))
    d['coverage']['selftest']={'corpus':'selftest/%s.tsv'%prop,'edits':int(total),'detected':int(killed),'skipped':int(skipped),'undetected':weak.split()}
    json.dump(d,open(p,'w'),indent=1)
except Exception as e:
    print('selftest: evidence not updated:',e)
PY
exit 0
