#!/bin/bash
# verify_seed.sh <seed-id>...  Confirms a seeded change in a scratch worktree of /repo HEAD:
#  patch applies, builds, the existing suite still passes (only the known TestOpen failure), the demo fails with the
#  change and passes without it. Writes /verif/seeded/<id>/verified.json. The worktree is removed afterwards.
export GOFLAGS=-mod=mod GOPROXY=off GOSUMDB=off GOTOOLCHAIN=local
for id in "$@"; do
  S=/verif/seeded/$id
  W=/tmp/vs-$id
  rm -rf "$W"; git -C /repo worktree prune
  git -C /repo worktree add -q --detach "$W" HEAD || { echo "$id: worktree failed"; continue; }
  dir=$(python3 -c "import json;print(json.load(open('$S/meta.json'))['package_dir'])")
  tst=$(python3 -c "import json;print(json.load(open('$S/meta.json'))['test'])")
  applies=false; builds=false; suite_ok=false; demo_fails=false; demo_passes_clean=false
  if git -C "$W" apply "$S/patch.diff" 2>/dev/null; then applies=true; fi
  if $applies; then
    if (cd "$W" && go build ./... 2>/dev/null); then builds=true; fi
    fails=$(cd "$W" && go test -count=1 -timeout 120s ./... 2>&1 | grep -E "^\s*--- FAIL" | grep -v "TestOpen" | head -5)
    if [ -z "$fails" ]; then suite_ok=true; fi
    cp "$S/demo_test.go" "$W/$dir/zz_seeded_test.go"
    if ! (cd "$W/$dir" && go test -count=1 -timeout 120s -run "^$tst\$" . >/dev/null 2>&1); then demo_fails=true; fi
    git -C "$W" checkout -q -- .
    if (cd "$W/$dir" && go test -count=1 -timeout 120s -run "^$tst\$" . >/dev/null 2>&1); then demo_passes_clean=true; fi
  fi
  head=$(git -C /repo rev-parse --short HEAD)
  printf '{"seed":"%s","repo_head":"%s","patch_applies":%s,"builds":%s,"suite_passes_with_change":%s,"demo_fails_with_change":%s,"demo_passes_without_change":%s,"other_failing_tests":"%s"}\n' \
    "$id" "$head" $applies $builds $suite_ok $demo_fails $demo_passes_clean "$(echo $fails | tr '"' "'")" > "$S/verified.json"
  cat "$S/verified.json"
  git -C /repo worktree remove --force "$W"
done
