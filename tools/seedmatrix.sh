#!/bin/sh
# Applies every seeded change (or the ones named) to a scratch worktree of /repo's HEAD (/tmp/seedmx, removed at
# the end; /repo itself is not touched), runs the quick check of its property there, and records the failed
# obligations in seeded/RESULTS.json (merged with the results already there).
cd /verif || exit 2
W=/tmp/seedmx
git -C /repo worktree remove --force $W 2>/dev/null; rm -rf $W
git -C /repo worktree add --detach $W >/dev/null 2>&1 || exit 2
mkdir -p /verif/work/seedrun && cp /verif/known_findings.json /verif/work/seedrun/
: > /verif/work/seedrun/status.tsv
for d in ${@:-seeded/C*}; do
  id=$(basename $d)
  prop=${id%%-*}
  [ -f $d/patch.diff ] || continue
  if ! git -C $W apply --check $PWD/$d/patch.diff 2>/dev/null; then
    printf '%s\t%s\tnoapply\t0\n' $id $prop >> /verif/work/seedrun/status.tsv
    echo "$id: does not apply to the current tree"
  else
    git -C $W apply $PWD/$d/patch.diff
    log=/verif/work/seedrun/$id.log
    VERIF_REPO=$W VERIF_DIR=/verif/work/seedrun ./check $prop quick > $log 2>&1
    rc=$?
    git -C $W checkout -- . ; git -C $W clean -fdq
    printf '%s\t%s\tapplied\t%s\n' $id $prop $rc >> /verif/work/seedrun/status.tsv
    echo "$id: exit=$rc $(grep -c '^VIOLATION' $log) violation line(s)"
  fi
done
python3 - <<'PY'
import json, os, re
V='/verif'
out=os.path.join(V,'seeded/RESULTS.json')
res={}
if os.path.exists(out):
    try:
        res={r['seed']:r for r in json.load(open(out))}
    except Exception:
        res={}
head=os.popen('git -C /repo rev-parse --short HEAD').read().strip()
for line in open(os.path.join(V,'work/seedrun/status.tsv')):
    sid,prop,st,rc=line.rstrip('\n').split('\t')
    if st=='noapply':
        res[sid]={'seed':sid,'property':prop,'applies':False,'repo_head':head}
        continue
    fails=[]; nv=0
    for l in open(os.path.join(V,'work/seedrun',sid+'.log'),errors='replace'):
        m=re.match(r'\s*failed obligation (\S+) \[([^\]]*)\]',l)
        if m: fails.append('%s [%s]'%(m.group(1),m.group(2)))
        if l.startswith('VIOLATION'): nv+=1
    res[sid]={'seed':sid,'property':prop,'applies':True,'exit':int(rc),'violation_lines':nv,'failed_obligations':fails,'repo_head':head}
json.dump([res[k] for k in sorted(res)],open(out,'w'),indent=1)
PY
git -C /repo worktree remove --force $W; rm -rf /verif/work/seedrun
