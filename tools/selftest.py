#!/usr/bin/env python3
"""tools/selftest.py <Cxx>[-name]   must-fail corpus of the thorough tier.

Copies /repo's working tree to scratch directories under /tmp (one per worker, removed at the end), applies each
one-line edit of selftest/<Cxx>[-name].tsv in turn (columns, tab separated: name, file, sed expression, substring of the
obligation expected to fail, functions to restrict the run to or '-'), runs the quick check of the property there and
requires a violation. Prints one SELFTEST line per edit; an undetected edit prints SELFTEST-WEAKNESS. Never changes the
exit status of the check (an undetected edit is a weakness of the contracts, not a violation by /repo). With
SELFTEST_EVIDENCE=1 the summary is added to evidence/<Cxx>.json under coverage.selftest."""
import json, os, re, shutil, subprocess, sys, threading, queue, time

T0 = time.time()

V = '/verif'
ENV = dict(os.environ, GOFLAGS='-mod=mod', GOPROXY='off', GOSUMDB='off', GOTOOLCHAIN='local')
WORKERS = int(os.environ.get('SELFTEST_WORKERS', '8'))
# wall-clock budget of one corpus run: edits not started when it is used up are reported as skipped (time budget), so
# the thorough tier of a property with a large corpus stays bounded (about half an hour by default)
BUDGET_S = int(os.environ.get('SELFTEST_BUDGET_S', '1800'))


def main():
    name = sys.argv[1]
    prop = name.split('-')[0]
    corpus = os.path.join(V, 'selftest', name + '.tsv')
    if not os.path.exists(corpus):
        print('SELFTEST %s: no corpus' % prop)
        return
    edits = []
    for line in open(corpus):
        line = line.rstrip('\n')
        if not line.strip() or line.startswith('#'):
            continue
        f = line.split('\t')
        if len(f) < 4:
            continue
        edits.append((f[0], f[1], f[2], f[3], f[4] if len(f) > 4 else '-'))
    results = {}
    q = queue.Queue()
    for i, e in enumerate(edits):
        q.put((i, e))
    lock = threading.Lock()

    def worker(w):
        W = '/tmp/verif-selftest-%s-%d-%d' % (name, os.getpid(), w)
        shutil.rmtree(W, ignore_errors=True)
        os.makedirs(W + '/verif')
        subprocess.run(['rsync', '-a', '--exclude', '.git', '/repo/', W + '/repo/'], check=True)
        shutil.copy(os.path.join(V, 'known_findings.json'), W + '/verif/')
        try:
            while True:
                try:
                    i, (ename, file, expr, expect, only) = q.get_nowait()
                except queue.Empty:
                    break
                if time.time() - T0 > BUDGET_S:
                    with lock:
                        results[i] = ('skipped', 'time budget of %d s used up' % BUDGET_S)
                    continue
                path = os.path.join(W, 'repo', file)
                orig = open(path, 'rb').read()
                subprocess.run(['sed', '-i', expr, path])
                if open(path, 'rb').read() == orig:
                    res = ('skipped', 'edit no longer applies')
                elif subprocess.run(['go', 'build', './...'], cwd=W + '/repo', env=ENV, capture_output=True).returncode != 0:
                    res = ('skipped', 'the edited tree does not compile')
                else:
                    env = dict(ENV, VERIF_REPO=W + '/repo', VERIF_DIR=W + '/verif')
                    if only and only != '-':
                        env['VERIF_ONLY'] = only
                    out = subprocess.run([os.path.join(V, 'bin/govc'), 'check', prop, 'quick'], cwd=V, env=env, capture_output=True, text=True).stdout
                    failed = re.findall(r'failed obligation (\S+)', out)
                    if 'VIOLATION' in out and any(expect in o for o in failed):
                        res = ('detected', [o for o in failed if expect in o][0])
                    elif 'VIOLATION' in out:
                        res = ('detected-other', failed[0] if failed else 'tool failure')
                    else:
                        res = ('undetected', expect)
                open(path, 'wb').write(orig)
                with lock:
                    results[i] = res
        finally:
            shutil.rmtree(W, ignore_errors=True)

    ts = [threading.Thread(target=worker, args=(w,)) for w in range(min(WORKERS, max(1, len(edits))))]
    for t in ts:
        t.start()
    for t in ts:
        t.join()
    detected = skipped = 0
    weak = []
    for i, (ename, file, expr, expect, only) in enumerate(edits):
        kind, info = results.get(i, ('skipped', 'not run'))
        if kind == 'detected':
            detected += 1
            print('SELFTEST %s %s: detected (%s)' % (prop, ename, info))
        elif kind == 'detected-other':
            detected += 1
            print('SELFTEST %s %s: detected by another obligation (%s), expected %s' % (prop, ename, info, expect))
        elif kind == 'skipped':
            skipped += 1
            print('SELFTEST %s %s: skipped (%s)' % (prop, ename, info))
        else:
            weak.append(ename)
            print('SELFTEST-WEAKNESS: %s %s is not detected (expected %s)' % (prop, ename, expect))
    print('SELFTEST %s: %d edits, %d detected, %d skipped,%s' % (prop, len(edits), detected, skipped,
          (' undetected: ' + ' '.join(weak)) if weak else ' none undetected'))
    if os.environ.get('SELFTEST_EVIDENCE') == '1':
        p = os.path.join(V, 'evidence', prop + '.json')
        try:
            d = json.load(open(p))
            d['coverage']['selftest'] = {'corpus': 'selftest/%s.tsv' % name, 'edits': len(edits), 'detected': detected,
                                         'skipped': skipped, 'undetected': weak}
            json.dump(d, open(p, 'w'), indent=1)
        except Exception as e:
            print('selftest: evidence not updated:', e)


if __name__ == '__main__':
    try:
        main()
    except Exception as e:  # never affects the exit status of the check
        print('SELFTEST: runner error:', e)
    sys.exit(0)
