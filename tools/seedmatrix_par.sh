#!/bin/bash
# Parallel version of seedmatrix.sh: every seed (or the ones named) is applied to a scratch worktree of its own under
# /tmp (removed afterwards), the quick check of its property runs there, results are merged into seeded/RESULTS.json.
cd /verif || exit 2
export GOFLAGS=-mod=mod GOPROXY=off GOSUMDB=off GOTOOLCHAIN=local
P=${SEED_WORKERS:-8}
R=/tmp/seedmx-par; rm -rf $R; mkdir -p $R
one() {
  d=$1; id=$(basename $d); prop=${id%%-*}
  [ -f /verif/$d/patch.diff ] || exit 0
  W=/tmp/seedmx-$id
  git -C /repo worktree add -q --detach $W HEAD 2>/dev/null || { sleep 1; git -C /repo worktree add -q --detach $W HEAD; }
  mkdir -p $W.v && cp /verif/known_findings.json $W.v/
  if ! git -C $W apply --check /verif/$d/patch.diff 2>/dev/null; then
    printf '%s\t%s\tnoapply\t0\n' $id $prop > /tmp/seedmx-par/$id.st
  else
    git -C $W apply /verif/$d/patch.diff
    VERIF_REPO=$W VERIF_DIR=$W.v /verif/bin/govc check $prop quick > /tmp/seedmx-par/$id.log 2>&1
    printf '%s\t%s\tapplied\t%s\n' $id $prop $? > /tmp/seedmx-par/$id.st
  fi
  git -C /repo worktree remove --force $W; rm -rf $W.v
  echo "$id: $(cut -f3,4 /tmp/seedmx-par/$id.st)"
}
export -f one
ls -d ${@:-seeded/C*} | xargs -P $P -I{} bash -c 'one {}'
cat $R/*.st > $R/status.tsv
python3 - <<'PY'
import json, os, re
V='/verif'; R='/tmp/seedmx-par'
out=os.path.join(V,'seeded/RESULTS.json')
res={}
if os.path.exists(out):
    try: res={r['seed']:r for r in json.load(open(out))}
    except Exception: res={}
head=os.popen('git -C /repo rev-parse --short HEAD').read().strip()
for line in open(os.path.join(R,'status.tsv')):
    sid,prop,st,rc=line.rstrip('\n').split('\t')
    if st=='noapply':
        res[sid]={'seed':sid,'property':prop,'applies':False,'repo_head':head}; continue
    fails=[]; nv=0
    for l in open(os.path.join(R,sid+'.log'),errors='replace'):
        m=re.match(r'\s*failed obligation (\S+) \[([^\]]*)\]',l)
        if m: fails.append('%s [%s]'%(m.group(1),m.group(2)))
        if l.startswith('VIOLATION'): nv+=1
    res[sid]={'seed':sid,'property':prop,'applies':True,'exit':int(rc),'violation_lines':nv,'failed_obligations':fails,'repo_head':head}
json.dump([res[k] for k in sorted(res)],open(out,'w'),indent=1)
n=sum(1 for r in res.values() if r.get('applies') and r.get('exit')==1); m=sum(1 for r in res.values() if r.get('applies') and r.get('exit')==0)
print('caught',n,'missed',m,'not applicable',sum(1 for r in res.values() if not r.get('applies')))
PY
rm -rf $R
