#!/bin/sh
# usage: mut.sh <prop> <file> <sed-expr>   apply a one-line mutation to /repo, run the quick check, undo
prop=$1; file=$2; expr=$3
cd /repo || exit 2
if [ -n "$(git status --porcelain)" ]; then echo "repo dirty"; exit 2; fi
sed -i "$expr" "$file"
if [ -z "$(git status --porcelain)" ]; then echo "mutation did not apply"; exit 2; fi
GOFLAGS=-mod=mod GOPROXY=off GOSUMDB=off GOTOOLCHAIN=local go build ./... 2>&1 | head -3
cd /verif && ./check $prop quick | grep "failed obl\|^$prop" | cut -c1-160
git -C /repo checkout -- .
