#!/usr/bin/env python3
"""tools/mergecorpus.py <tsv> <default property> [tag]: appends the edits of a delivered corpus to selftest/<Cxx>.tsv
(a name prefix cNN- selects the property; otherwise the default). Names get the tag as a prefix to stay unique."""
import sys, re, os
src, default = sys.argv[1], sys.argv[2]
tag = sys.argv[3] if len(sys.argv) > 3 else ''
out = {}
for line in open(src):
    line = line.rstrip('\n')
    if not line.strip() or line.startswith('#'):
        continue
    f = line.split('\t')
    if len(f) < 4:
        continue
    m = re.match(r'c(\d\d)-', f[0])
    prop = 'C' + m.group(1) if m else default
    if tag and not f[0].startswith(tag):
        f[0] = tag + '-' + f[0]
    out.setdefault(prop, []).append('\t'.join(f))
for prop, lines in out.items():
    path = '/verif/selftest/%s.tsv' % prop
    have = set(l.split('\t')[0] for l in open(path)) if os.path.exists(path) else set()
    with open(path, 'a') as fh:
        n = 0
        for l in lines:
            if l.split('\t')[0] in have:
                continue
            fh.write(l + '\n'); n += 1
    print(prop, n, 'edits added')
