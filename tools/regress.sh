#!/bin/bash
# runs every registered check (quick) and prints one line each; exit 1 if any fails
cd /verif
rc=0
for p in $(python3 -c "import json;print(' '.join(c['property_id'] for c in json.load(open('MANIFEST.json'))['checks']))"); do
  out=$(./check $p quick 2>&1); st=$?
  echo "$out" | grep "^$p quick" | cut -c1-140
  if [ $st -ne 0 ]; then rc=1; echo "$out" | grep "failed obl" | cut -c1-200; fi
done
exit $rc
