#!/usr/bin/env python3
"""Assembles /verif/DESIGN.md from docsrc/*.md plus facts measured on the tree:
per-property sections from tools/mkmanifest.py (claim text), evidence/*.json (functions, obligations, time, trusted
contracts used), the defect table from known_findings.json, the seed table from seeded/RESULTS.json."""
import json, os, re, glob, importlib.util, subprocess

V = '/verif'

def rd(p):
    return open(os.path.join(V, p)).read()

spec = importlib.util.spec_from_file_location('mkmanifest', os.path.join(V, 'tools/mkmanifest.py'))
mm = importlib.util.module_from_spec(spec)
spec.loader.exec_module(mm)

props = [json.loads(l) for l in open(os.path.join(V, 'properties.jsonl'))]
notes = {}
cur = None
for line in rd('docsrc/05-notes.md').split('\n'):
    m = re.match(r'<!-- (C\d\d) -->', line)
    if m:
        cur = m.group(1)
        notes[cur] = []
        continue
    if cur:
        notes[cur].append(line)

seeds = []
if os.path.exists(os.path.join(V, 'seeded/RESULTS.json')):
    seeds = json.load(open(os.path.join(V, 'seeded/RESULTS.json')))

def short(o):
    return o.replace('engine.', '').replace('prolog.', '')

def sec5():
    out = ["## 5. Per property: what is proved, on which functions, what is trusted, what stays open\n",
           "Each claimed section gives the claim as registered in MANIFEST.json (**Decided** / **Not decided**),",
           "how the contracts are built, and the figures of the last quick run on this tree",
           "(`evidence/<id>.json`; regenerate with `tools/regress.sh && tools/mkdesign.py`).\n"]
    for p in props:
        pid = p['id']
        if pid in mm.CLAIMED:
            text, note, tech, _ = mm.CLAIMED[pid]
            if pid in getattr(mm, 'ROUND3', {}):
                text = text + ' ' + mm.ROUND3[pid][0]
                if mm.ROUND3[pid][1]:
                    note = mm.ROUND3[pid][1]
            out.append("### %s — %s — claimed%s\n" % (pid, p['title'], '' if pid in ('C07', 'C18') else ' (fragment)'))
            out.append("**Decided.** " + text + "\n")
            out.append("**Not decided.** " + note + "\n")
            out.append('\n'.join(notes.get(pid, [])).strip() + "\n")
            evp = os.path.join(V, 'evidence', pid + '.json')
            if os.path.exists(evp):
                ev = json.load(open(evp))
                c = ev['coverage']
                fns = [f.split(' [')[0] for f in (c.get('functions_under_contract') or [])]
                bb = c.get('by_backend', {})
                bbs = ', '.join('%s %d (%.1f s)' % (k, v['obligations'], v['secs']) for k, v in sorted(bb.items()))
                slow = c.get('slowest', [])
                slowest = ('%s %.1f s' % (short(slow[0]['obligation']), slow[0]['secs'])) if slow else '-'
                tr = sorted(a.split(': ', 1)[1] for a in ev.get('assumptions', []) if a.startswith('trusted contract assumed'))
                oth = sorted(a.split(': ', 1)[1] for a in ev.get('assumptions', []) if a.startswith('contract relied on'))
                ext = sorted(a.split(': ', 1)[1] for a in ev.get('assumptions', []) if a.startswith('extern contract assumed'))
                st = c.get('structural', []) or []
                out.append("**Last run.** %d obligations, %d discharged (%s); %d known-finding hit(s); wall %.0f s; slowest: %s; "
                           "loops without an invariant: %s; vacuity covers: %s.\n" % (
                               c.get('obligations', 0), c.get('discharged', 0), bbs, len(c.get('known_findings_hit') or []),
                               ev.get('wall_s', 0), slowest, c.get('loops_without_invariant', 0),
                               ', '.join('%s %d' % kv for kv in sorted((c.get('vacuity') or {}).items()))))
                if fns:
                    out.append("Functions whose bodies are verified (%d): %s.\n" % (len(fns), ', '.join('`%s`' % short(f) for f in fns)))
                if st:
                    out.append("Structural obligations (%d): %s.\n" % (len(st), ', '.join('`%s`' % short(s['name']) for s in st[:12]) + (' …' if len(st) > 12 else '')))
                if tr:
                    out.append("Trusted contracts used (bodies not verified): %s.\n" % ', '.join('`%s`' % short(t) for t in tr))
                if oth:
                    out.append("Contracts relied on that this check does not itself prove: %s.\n" % ', '.join('`%s`' % short(t) for t in oth))
                if ext:
                    out.append("Extern contracts: %s.\n" % ', '.join('`%s`' % t for t in ext))
            ss = [s for s in seeds if s['property'] == pid]
            if ss:
                parts = []
                for s in ss:
                    if not s.get('applies'):
                        parts.append('%s (no longer applies)' % s['seed'])
                    elif s.get('exit') == 1:
                        parts.append('%s caught' % s['seed'])
                    else:
                        parts.append('%s **missed**' % s['seed'])
                out.append("Seeded changes (§11): %s.\n" % ', '.join(parts))
        else:
            out.append("### %s — %s — not applicable\n" % (pid, p['title']))
            out.append('\n'.join(notes.get(pid, [])).strip() + "\n")
    out.append("--------------------------------------------------------------------------------\n")
    return '\n'.join(out)

def sec11():
    out = ["## 11. Seeded changes and the obligations that catch them\n",
           "Generated from `seeded/RESULTS.json` (`tools/seedmatrix.sh`: every seed applied to a scratch worktree of /repo's",
           "HEAD, the quick check of its property run there). \"caught\" = exit 1 with at least one VIOLATION line.",
           "What each change does and what it needs to manifest is in `seeded/<id>/meta.json`.\n",
           "| seed | what was changed (author's summary, shortened) | result | failed obligations |",
           "|------|-----------------------------------------------|--------|--------------------|"]
    for s in seeds:
        meta = {}
        mp = os.path.join(V, 'seeded', s['seed'], 'meta.json')
        if os.path.exists(mp):
            try:
                meta = json.load(open(mp))
            except Exception:
                meta = {}
        summ = (meta.get('summary') or '').replace('|', '/').replace('\n', ' ')
        if len(summ) > 230:
            summ = summ[:227] + '…'
        if not s.get('applies'):
            res, obs = 'no longer applies (the code it edits was repaired)', ''
        elif s.get('exit') == 1:
            res = 'caught'
            obs = '; '.join('`%s`' % short(o) for o in s.get('failed_obligations', [])[:4])
            if len(s.get('failed_obligations', [])) > 4:
                obs += ' …'
        else:
            res, obs = '**missed**', meta.get('missed_because', '')
        out.append("| %s | %s | %s | %s |" % (s['seed'], summ, res, obs))
    caught = sum(1 for s in seeds if s.get('applies') and s.get('exit') == 1)
    missed = [s['seed'] for s in seeds if s.get('applies') and s.get('exit') != 1]
    out.append("\n%d seeds, %d caught, %d missed (%s), %d no longer applicable.\n" % (
        len(seeds), caught, len(missed), ', '.join(missed) or '-', sum(1 for s in seeds if not s.get('applies'))))
    out.append(rd('docsrc/11-missed.md'))
    return '\n'.join(out)

def sec9table():
    kf = json.load(open(os.path.join(V, 'known_findings.json')))
    rows = ["| # | prop | obligation | what failed on the pinned code | status |", "|---|------|------------|--------------------------------|--------|"]
    for f in kf['findings']:
        rows.append("| %s | %s | `%s` | %s — witness: %s | **open known finding** (region `%s`) |" % (
            f['id'], f['property'], short(f['obligation']), f['what'].replace('|', '/'), f['witness'].replace('|', '/'), f['region']))
    for f in kf['fixed']:
        rows.append("| %s | %s | `%s` | %s | fixed (%s) |" % (
            f['id'], f['property'], short(f['obligation']).replace('|', '/'), f['what'].replace('|', '/'), f.get('commit_hash', '')))
    return '\n'.join(rows) + '\n'

parts = [rd('docsrc/00-head.md'), rd('docsrc/02-why.md'), rd('docsrc/03-govc.md'), rd('docsrc/04-reporting.md'), sec5()]
s610 = rd('docsrc/06-10.md')
# replace the hand-written defect table by the one generated from known_findings.json
i = s610.index('| # | prop | obligation |')
j = s610.index('Observed, outside every claimed fragment')
s610 = s610[:i] + sec9table() + '\n' + s610[j:]
parts.append(s610)
parts.append(sec11())
parts.append(rd('docsrc/A-appendix.md'))
parts.append(rd('docsrc/B-probe-log.md'))
parts.append(rd('docsrc/C-encoder-notes.md'))
open(os.path.join(V, 'DESIGN.md'), 'w').write('\n'.join(parts))
print('DESIGN.md written:', sum(p.count('\n') for p in parts), 'lines')
