#!/usr/bin/env python3
"""Regenerates /verif/MANIFEST.json from the table below (claimed checks) and properties.jsonl (everything else is
listed under not_applicable with its reason)."""
import json, subprocess

ENV = "GOFLAGS=-mod=mod GOPROXY=off GOSUMDB=off GOTOOLCHAIN=local"

# property -> (level text, level note, technique, design ref)
CLAIMED = {
 "C07": ("Contracts on the real arithmetic kernels of engine/number.go (every *I, *F, *FI/*IF/*II, *FtoI function and the comparison helpers), proved for all 64-bit / IEEE-754 inputs by weakest-precondition VCs over go/ssa discharged with z3/cvc5; sat answers are replayed on the real functions.",
         "Trusted: go/ssa, the SMT solvers, extern contracts for math.Floor/Ceil/Trunc/Round/Abs/IsInf/IsNaN (IEEE roundToIntegral/abs), Float values are finite (type invariant, asserted at contracted producers). eval's term traversal and the transcendental functions are not under contract. F3 (addF at exactly +-MaxFloat64) is an open known finding.",
         "contract-based deductive verification: WP over go/ssa + SMT (bit-vectors / integers with explicit wrap / IEEE FP)", "DESIGN.md 5 C07"),
 "C03": ("Contracts on the choice-point stack and the cut step: promiseStack.pop/popUntil (prefix kept, pops exactly down to the topmost occurrence of the cut parent, nothing older when it is absent), Promise.child (leftmost alternative, consumed once unless repeat), cut(), the cut step and push order of Promise.Force (cut parent stays findable for later cuts of the same body), Call (fresh one-off procedure: cut local to call/N), CallNth. Proved for every stack/heap by VCs with loop invariants over go/ssa.",
         "Fragment: that the stack is the set of open choice points for every program (the DFS invariant across arbitrary continuations), clause-body compilation of control constructs (iterator.go, clause.go) and bootstrap.pl's once/->/\\+ are not under contract. Assumed (listed in evidence): continuations do not touch the promise they are delayed in nor Force's local stack; no promise is its own cut parent; continuations return non-nil promises. Force's own run-time safety is not claimed (nosafety).",
         "contract-based deductive verification: WP over go/ssa with heap model, loop invariants, frame conditions; SMT", "DESIGN.md 5 C03"),
 "C04": ("Contracts on error unwinding: promiseStack.recover (pops innermost first, handler gets exactly the error, stack = kept prefix + handler's promise, or empty and the error returned), the error step of Force, catch/3's handler closure (catcher unified in the call-time environment, Recovery called in its place with the same continuation, declines iff unification fails; the captured call-time variables are never reassigned), throw/1 (instantiation error only for a variable, otherwise a copy of the resolved ball).",
         "Fragment: F18 (an exited catch/3 still intercepts) and re-activation on backtracking are history properties outside per-function contracts; Env.Unify/Resolve and renamedCopy are trusted here. Assumed: handlers called through function values do not write Force's local stack.",
         "contract-based deductive verification: WP over go/ssa (closures as functions, at-call wiring obligations, structural census of captured variables); SMT", "DESIGN.md 5 C04"),
 "C13": ("Force polls the context before every step (ghost flag set by the non-blocking select, cleared by child; obligation at the call of child), and every Force call in both packages receives a context derived from a context parameter of the enclosing function (data-flow check on SSA).",
         "Fragment: the delay bound, termination of a single step, scheduling and 'interpreter stays usable' are not decided. TermString.Scan is a declared exemption (finite write).",
         "contract-based deductive verification (ghost state obligation in Force) + structural data-flow obligation over go/ssa", "DESIGN.md 5 C13"),
 "C18": ("Contracts on the operator table as a finite map from name and class to (priority, specifier): operators.init/defined/definedInClass/define/remove with their exact effect and frame, operatorSpecifier.class/arity and operator.bindingPriorities against the ISO table, validateOp (returns an error exactly in the ISO permission cases, changes nothing), and op/3 itself: every error return leaves every row unchanged (validation completes before the first mutation), the continuation runs only after the update, nothing but the listed names' slots of the specifier's class changes.",
         "Fragment: the effect clause is proved for the last name of a list (each earlier name had it when its iteration ended; the quantified version over all names timed out and is not claimed); current_op/3's enumeration, error-term selection and that reader/writer consult the table are not decided. Trusted: Env.Resolve, ListIterator, appendUniqNewAtom, error constructors; axiom: the four special atoms are pairwise distinct.",
         "contract-based deductive verification: WP over go/ssa with map/array heap model and loop invariants; SMT", "DESIGN.md 5 C18"),
 "C19": ("Contracts on the stream cursor: Stream.ReadRune/UnreadRune/ReadByte/UnreadByte/initRead/reset/checkEOS against a ghost model of bufio.Reader transcribed from its source (consumed bytes, last rune size, remembered byte; a failed ReadByte keeps the remembered byte), position moves by exactly the bytes consumed, wrong stream type/mode is refused without moving; peek_char/peek_byte leave the cursor where it was when the continuation runs and no state-mutating defer is pending while a continuation may run (peek/read_term); get_char/get_byte advance by exactly what they deliver; text/binary writers forward the bytes unchanged in one call and count them.",
         "Fragment: that read_term stops exactly after the end token (lexer look-ahead), Seek, eof_action sequences across operations are not decided. Trusted: the bufio extern contracts, stream(), newBufReader, Parser.Term, errors.Is fact.",
         "contract-based deductive verification: WP over go/ssa with ghost fields and continuation-point (onk / defer-k) obligations; SMT", "DESIGN.md 5 C19"),
 "C15": ("Contracts on the scalar conversions of Scan (convertAssignInt/8/16/32/64/Float64: on success the destination holds exactly the answer's value, a non-integer answer is errConversion and leaves the destination alone, the answer is what Env.Resolve returns for the term) with the value-changing-conversion hazard generated for every integer conversion, and on placeholders: Parser.termOf maps signed integers exactly, floats bit-exactly and Go strings to the same constructor call (CharList/CodeList/NewAtom of the text, chosen by double_quotes) that the parser's double-quoted-literal branch uses.",
         "Fragment: Scan into structs/maps/slices (reflect), list conversions, float32, placeholder accounting in Parser.Term are not decided. Trusted: reflect.Value accessors as deterministic pure functions, CharList/CodeList/NewAtom/unDoubleQuote as deterministic pure functions (their bodies are not verified here), Env.Resolve.",
         "contract-based deductive verification: WP over go/ssa (both packages) + SMT, narrowing hazards", "DESIGN.md 5 C15"),
 "C16": ("Contracts on the deterministic modes of relational built-ins, stated at the call that hands the answer to unification: char_code/2 (the character whose code equals the integer, in both directions; no value-changing conversion), atom_length/2 (length of the rune sequence of the atom's text), succ/2 (S-1 for S>0; X+1 through the exact add kernel, overflow is an error), between/3 (check mode runs the continuation only for low <= V <= high; enumeration yields low, and continues with low+1 only when that cannot wrap).",
         "Fragment: every enumeration mode (atom_concat, sub_atom, append, length, nth, member, select, between's answer sequence), arg/3, functor/3 and =../2 are not decided. Trusted: Env.Resolve, Atom.String as a deterministic pure function, utf8.ValidRune fact.",
         "contract-based deductive verification: WP over go/ssa with at-call and closure-precondition obligations; SMT", "DESIGN.md 5 C16"),
 "C05": ("Run-time-panic obligations (nil dereference, index/slice bounds, division by zero, negative shift, failed type assertion, nil-map write, make length/size, close of closed channel, explicit panic) generated without annotation for every function under contract that does not opt out, and proved with unconstrained arguments: all of number.go's kernels and dispatchers, the operator table functions, the stream cursor methods, promiseStack and Promise.child, the enum-to-atom tables of exception.go/stream.go (enum validity as type invariants), both ring buffers, float() (no nil dereference on a ParseFloat error, no infinite literal), makeSlice (every make in the function; its recover clause honoured only while the deferred recover exists).",
         "Fragment: parser/lexer recursion depth (X = [- never returns), blocking, most built-ins (declared nosafety where their contracts are about wiring), arbitrary byte strings as text are not decided. F23 (makeSlice trusts an unset memory limit) is an open known finding. Trusted: extern contracts for math/big, bufio, context; assumptions listed per function in the evidence.",
         "contract-based deductive verification: zero-annotation safety VCs over go/ssa + SMT", "DESIGN.md 5 C05"),
 "C12": ("Solutions.Next/Close/Err as a sequential typestate with a ghost field 'the answer channel was found closed': Next never sends once the producer has finished (the send is an obligation over the ghost field, which the done flag must record), returns false without any channel operation after Close or exhaustion, false implies closed or done, Next never closes; Close returns ErrClosed without communicating when repeated and closes the channel exactly once otherwise; the closed/done flags are only ever set to true anywhere in the package (census), so the typestate is monotone over every call history.",
         "Fragment: everything that needs the producer goroutine (that the first false arrives, no goal runs after Close, goroutine termination, interleaving several Solutions, Scan reporting the latest answer) is not decided; channels are ghost events, not a concurrency model.",
         "contract-based deductive verification: WP over go/ssa with ghost fields and channel events as ghost obligations + structural census", "DESIGN.md 5 C12"),
 "C02": ("Contracts on unification and the term representations: Env.unify satisfies the defining equations of the algorithm case by case (both sides dereferenced first; a variable unifies with itself without binding; the occurs check fails exactly when contains says so; otherwise exactly that variable is bound to the other side and nothing else changes; atomic terms unify iff identical; different principal functor or arity fails; the variable-on-the-right cases are the mirrored call; arguments are unified pairwise left to right in the threaded environment, failing at the first failing pair); every failing case that has bound nothing returns the caller's environment; contains satisfies the occurs-check equations (looks through bound variables); the environment of a failed unification is never read (data-flow obligation on Unify/UnifyWithOccursCheck/SubsumesTerm/VM.exec); Env nodes are never written after publication; the binding store is a search tree verified against an abstract map view: lookup returns the view, insert/bind update it at exactly one key, balance preserves every lookup and the order; newEnvKey is injective; list, charList, codeList and partial expose the same '.'/2 cells (head, tail, end of list) and charList/codeList stay non-empty; NewAtom of a one-character name is that character's atom; VM.exec decides head arguments through Env.Unify.",
         "Fragment: that the equations compute a most general unifier, symmetry, idempotence and termination are meta-theorems about the equations and are not mechanised; the abstract view of the binding tree is introduced by definition at publication (assumptions listed; justified by the structural immutability obligation), colours and depth are not specified; Compound.Arg/Arity/Functor of a term are deterministic abstract functions (terms are not mutated during a unification: assumed); exec's construction of the skeletons for compound head arguments is pinned only as 'goes through Env.Unify'.",
         "contract-based deductive verification: WP over go/ssa with abstract map/term functions, recursive calls by contract, structural data-flow obligations; SMT", "DESIGN.md 5 C02"),
 "C14": ("Ownership discipline of every package-level variable of both packages (235 variables), decided on the SSA of all functions: write-once (stored only by package init, and nothing reachable through it is written elsewhere, also not by a callee that receives it through a parameter or an interface call: interprocedural summaries), atomic (varCounter: only through sync/atomic, every update a single read-modify-write whose result is the value used), guarded-by (atomTable: every read under Lock/RLock, every write under Lock, unlock only by defer, and a write's critical section contains the reads it decides on), test-hook. So two interpreters share no mutable memory except the two synchronised globals.",
         "Fragment: a happens-before argument (the family has no thread model), races inside one interpreter between the query goroutine and its consumer (Solutions.err), value flow through the heap (a pointer to shared memory stored in a structure and written through later is not followed), and the stores of Force/child to shared promise objects are not decided here.",
         "contract-based verification: frame/ownership obligations decided structurally on go/ssa (no solver)", "DESIGN.md 5 C14"),
 "C08": ("Contracts on the standard order: Integer/Float/Atom/Variable.Compare return -1/0/1, order another type by the rank Var < Float < Integer < Atom < other atomic < Compound and the same type by the mathematical difference (no overflow), the IEEE order, the text order (strings.Compare), the variable number; each compares the resolved term; CompareCompound orders by arity, then name, then the first argument whose comparison is non-zero (loop invariant: all earlier arguments compare equal), 0 exactly when all compare equal; keysort/2 goes through sort.SliceStable.",
         "Fragment: the order laws themselves (antisymmetry, transitivity, totality over compounds) follow from these clauses by induction over terms, which is not mechanised; sort/2's and setof/3's sort+dedupe (Env.set) and representation independence for partial/char/code lists are not decided. Term.Compare and Compound.Arity/Functor/Arg are deterministic abstract functions that the concrete methods define (assumed, listed); Env.Resolve is trusted.",
         "contract-based deductive verification: WP over go/ssa with interface-level abstract functions and loop invariants; SMT", "DESIGN.md 5 C08"),
 "C09": ("Contracts on one update step: the deletion step of retract/1 removes at most one clause and exactly the clause whose stored term is the one it unified with (found by identity at deletion time; no index can leave the clause list), assertz/asserta's merge functions put the new clauses after/before the existing ones with every clause keeping its term and code in order, assertMerge merges exactly the compiled clauses and changes no procedure when it fails, and the alternatives of a call hold their own copy of each clause (census on the captured variable) - the mechanism of the logical update view.",
         "Fragment: that every history of updates and open calls equals the sequential reference model is a statement about answer sequences (C01's obstacle) and is not decided; retractall/abolish are not under contract. Trusted: compile, piArg, id, Env.Unify; assumed: assertMerge's callbacks keep the procedure table.",
         "contract-based deductive verification: WP over go/ssa with slice-of-struct heap model, closures as functions, structural census", "DESIGN.md 5 C09"),
 "C20": ("Contracts on the loader: text.flush takes a run of clauses of one predicate in source order after the earlier clauses of that predicate, empties the buffer, and reports an error (changing neither the buffer nor the stored clauses) exactly when the predicate already has clauses in this text and is not discontiguous; the stored clause list never shares its backing array with the buffer; VM.Compile returns the text's or flush's error before the first write to the procedure table (a failed load defines nothing); VM.compile reads every clause with an empty variable table (clauses of one text share no variables).",
         "Fragment: the per-term loop (VM.compile: parsing, expansion, directives) is, apart from that one call-site obligation, trusted to leave the procedure table alone (the property's 'side-effect-free directives') and to keep the text's invariants; the commit loop over the map, multifile merging, initialization goals, include/ensure_loaded are not decided.",
         "contract-based deductive verification: WP over go/ssa with map and slice-of-struct heap model; SMT", "DESIGN.md 5 C20"),
 "C10": ("Contracts on how a clause is stored: every store compile makes into a clause's term field stores the given term with the bindings in force applied (for facts and rules alike), the body's alternatives and goals are read through iterators built with the clause's environment, the iterators and the goal walkers test the shape of a term only after Env.Resolve (structural data-flow obligation), the stored term must be detached from the caller's variables (renamed apart; open finding F30), and clause.varOffset gives a variable one slot: the offset returned names the variable, is its first occurrence, earlier offsets stay valid, a known variable gets no second slot, a new one the next slot.",
         "Fragment: that the byte code denotes the source term (decompile-after-compile, and exec realising it) is a statement about instruction sequences and is not decided; compileClause/compilePred/compileHeadArg are not under contract; renamedCopy is trusted. F14b (a disjunctive clause is stored once per disjunct) and F30 (the stored term is not renamed apart from the caller's variables) are open known findings.",
         "contract-based deductive verification: WP over go/ssa with at-store obligations, loop invariants, structural data-flow obligations", "DESIGN.md 5 C10"),
 "C11": ("Contracts on the collectors: variant/3 builds a renaming that is injective (loop invariant over the map and its inverse) and tests term shapes only after Env.Resolve; findall/3 takes, per solution, a copy of the template in that solution's environment, appends it at the end of the answers, asks for the next solution, solves the goal and unifies the result list in the environment findall/3 was called in with the caller's continuation (captured variables never reassigned); the free-variable and ^-prefix walkers (newExistentialVariablesSet, iteratedGoalTerm, newVariableSet, newFreeVariablesSet) test term shapes only after Env.Resolve.",
         "Fragment: that bagof/setof's groups partition the solutions (one group per witness class, every solution once) needs the answer set of an arbitrary goal and is not decided; collectionOf's witness loop and Env.set (setof's sort+dedupe) are not under contract; renamedCopy and Env.Resolve are trusted.",
         "contract-based deductive verification: WP over go/ssa with map invariants, closures as functions, structural data-flow obligations", "DESIGN.md 5 C11"),
}

NA_REASON = {
 "C01": "whole-program operational equivalence over Go closures: no per-function first-order contract states 'the answer sequence equals SLD resolution' (DESIGN.md 5 C01)",
 "C06": "write/read inverse over the term algebra needs string/grammar reasoning that the VC generator's uninterpreted string model cannot express (DESIGN.md 5 C06)",
 "C17": "language preservation of the DCG translation needs the Prolog semantics of the generated clauses (C01's obstacle); not expressible as a contract (DESIGN.md 5 C17)",
}
DEFAULT_NA = "contracts designed (DESIGN.md section 5) but not yet under proof in this build"

def main():
    props = [json.loads(l) for l in open('/verif/properties.jsonl')]
    checks = []
    na = []
    for p in props:
        pid = p["id"]
        if pid in CLAIMED:
            text, note, tech, ref = CLAIMED[pid]
            checks.append({
                "property_id": pid,
                "quick_cmd": "./check %s quick" % pid,
                "thorough_cmd": "./check %s thorough" % pid,
                "evidence_file": "/verif/evidence/%s.json" % pid,
                "replay_cmd_template": "./check replay {path}",
                "engine": "govc",
                "level_claimed": {"category": "proof", "text": text, "design_ref": ref},
                "level_note": note,
                "technique": tech,
            })
        else:
            na.append({"property_id": pid, "reason": NA_REASON.get(pid, DEFAULT_NA)})
    try:
        commits = subprocess.check_output(["git", "-C", "/repo", "log", "--format=%h %s", "--grep=^verif:"], text=True).strip().split("\n")
    except Exception:
        commits = []
    m = {
        "version": 1,
        "setup_cmd": "cd govc && %s go build -o ../bin/govc ." % ENV,
        "hooks": {
            "guard": "verif",
            "enable": "-tags verif (the only guarded files are the comment-only contract files engine/verif_contracts.go, engine/verif_sweep.go and verif_contracts.go; govc loads /repo with this tag)",
            "baseline_off_cmd": "cd /repo && %s go test -vet=off -count=1 -timeout 25m ./..." % ENV,
            "source_commits": [c for c in commits if c],
            "add_only": True,
        },
        "engines": [{"name": "govc", "path": "/verif/govc", "serves_properties": sorted(CLAIMED), "kind_free_text": "verification-condition generator over go/ssa with contracts in build-tagged comment files; z3 5.1 / z3 4.8.12 / cvc5 1.0.3 portfolio; counterexample replay through go test -overlay"}],
        "checks": checks,
        "notes": "See DESIGN.md. known_findings.json lists open findings (reported as KNOWN-FINDING, exit 0) and fixed ones (suppress nothing).",
        "not_applicable": na,
    }
    json.dump(m, open('/verif/MANIFEST.json', 'w'), indent=1)
    print("checks:", [c["property_id"] for c in checks])

if __name__ == "__main__":
    main()
