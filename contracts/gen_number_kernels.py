#!/usr/bin/env python3
# Generates the repetitive number.go kernel contracts (float, mixed-mode, comparison kernels). Output was pasted into
# /repo/engine/verif_contracts.go; kept for reference, the committed contract file is the source of truth.
out=[]
w=out.append
w("""
//@ ---------------------------------------------------------------- float kernels (C07)

//@ type Float invariant[finite] finite(self)

//@ extern math.Floor
//@   pure
//@   ensures same(result, fp.rti(RTN, x))
//@ extern math.Ceil
//@   pure
//@   ensures same(result, fp.rti(RTP, x))
//@ extern math.Trunc
//@   pure
//@   ensures same(result, fp.rti(RTZ, x))
//@ extern math.Round
//@   pure
//@   ensures same(result, fp.rti(RNA, x))
//@ extern math.Abs
//@   pure
//@   ensures same(result, fp.abs(x))
//@ extern math.IsInf
//@   pure
//@   ensures sign == 0 ==> result == fp.isInf(f)
//@ extern math.IsNaN
//@   pure
//@   ensures result == fp.isNaN(f)

//@ spec fun fltRes(R float64, nz bool, r Float, e error) bool =
//@     (e == nil ==> same(r, R) && finite(R)) &&
//@     (e == exceptionalValueFloatOverflow ==> fp.isInf(R)) &&
//@     (e == exceptionalValueUnderflow ==> R == 0.0 && nz) &&
//@     (e == nil || e == exceptionalValueFloatOverflow || e == exceptionalValueUnderflow)
//@ spec fun divRes(x float64, y float64, r Float, e error) bool =
//@     ((e == exceptionalValueZeroDivisor) <==> y == 0.0) && (y != 0.0 ==> fltRes(x / y, x != 0.0, r, e))
//@ spec fun inI64f(m float64) bool = -0x1p63 <= m && m < 0x1p63
//@ spec fun f2iRes(m float64, r Integer, e error) bool =
//@     ((e == nil) <==> inI64f(m)) && (e == nil ==> r == fp.toInt(m)) && (e != nil ==> e == exceptionalValueIntOverflow)

//@ func addF
//@   property C07
//@   ensures[ieee] fltRes(x + y, false, result, err)

//@ func subF
//@   property C07
//@   ensures[ieee] fltRes(x - y, false, result, err)

//@ func mulF
//@   property C07
//@   ensures[ieee] fltRes(x * y, x != 0.0 && y != 0.0, result, err)

//@ func divF
//@   property C07
//@   ensures[ieee] divRes(x, y, result, err)

//@ func negF
//@   property C07
//@   ensures[ieee] same(result, -x)

//@ func absF
//@   property C07
//@   ensures[ieee] same(result, fp.abs(x))

//@ func signF
//@   property C07
//@   ensures[sign] (x > 0.0 ==> result == 1.0) && (x < 0.0 ==> result == -1.0) && (x == 0.0 ==> result == 0.0)

//@ func intPartF
//@   property C07
//@   ensures[truncation] result == fp.rti(RTZ, x)

//@ func fractPartF
//@   property C07
//@   ensures[fraction] same(result, x - fp.rti(RTZ, x)) || (result == 0.0 && x - fp.rti(RTZ, x) == 0.0)

//@ func posF
//@   property C07
//@   ensures[identity] err == nil && same(result, x)

//@ func floatItoF
//@   property C07
//@   ensures[convert] same(result, f64(n))

//@ func floatFtoF
//@   property C07
//@   ensures[identity] same(result, x)
""")
for name,mode in [("floorFtoI","RTN"),("truncateFtoI","RTZ"),("roundFtoI","RNA"),("ceilingFtoI","RTP")]:
    w(f"""
//@ func {name}
//@   property C07
//@   ensures[exact-or-overflow] f2iRes(fp.rti({mode}, x), result, err)
""")
w("""
//@ ---------------------------------------------------------------- mixed-mode kernels (C07)
""")
for op,sym,nz in [("add","+","false"),("sub","-","false"),("mul","*","NZ")]:
    nzFI = "x != 0.0 && n != 0" if nz=="NZ" else "false"
    w(f"""
//@ func {op}FI
//@   property C07
//@   ensures[ieee] fltRes(x {sym} f64(n), {nzFI}, result, err)

//@ func {op}IF
//@   property C07
//@   ensures[ieee] fltRes(f64(n) {sym} x, {nzFI}, result, err)
""")
w("""
//@ func divFI
//@   property C07
//@   ensures[ieee] divRes(x, f64(n), result, err)

//@ func divIF
//@   property C07
//@   ensures[ieee] divRes(f64(n), x, result, err)

//@ func divII
//@   property C07
//@   ensures[ieee] divRes(f64(n), f64(m), result, err)

//@ ---------------------------------------------------------------- comparison kernels (C07)
""")
rel={"eq":"==","neq":"!=","lss":"<","leq":"<=","gtr":">","geq":">="}
for k,o in rel.items():
    w(f"""
//@ func {k}F
//@   property C07
//@   ensures[numeric] result == (x {o} y)

//@ func {k}I
//@   property C07
//@   ensures[numeric] result == (m {o} n)

//@ func {k}FI
//@   property C07
//@   ensures[numeric] result == (x {o} f64(n))

//@ func {k}IF
//@   property C07
//@   ensures[numeric] result == (f64(n) {o} y)
""")
print("".join(out))
