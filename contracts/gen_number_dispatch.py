#!/usr/bin/env python3
# Generates dispatcher contracts for number.go (pasted into /repo/engine/verif_contracts.go).
out=[]
w=out.append
w("""
//@ ---------------------------------------------------------------- error constructors (abstract; bodies not verified)

//@ spec abstract isTypeErr(e error, vt validType, culprit Term) bool

//@ func typeError
//@   trusted
//@   modifies nothing
//@   ensures isTypeErr(result, validType, culprit)

//@ ---------------------------------------------------------------- dispatchers (C07): each pair of dynamic types goes to the kernel of that functor
""")
def numnum(name, kII, kIF, kFI, kF, resII="Integer"):
    w(f"""
//@ func {name}
//@   property C07
//@   modifies nothing
//@   ensures[II] x is Integer && y is Integer ==> (err == nil ==> result is {resII}) && post({kII})(x as Integer, y as Integer, result as {resII}, err)
//@   ensures[IF] x is Integer && y is Float ==> (err == nil ==> result is Float) && post({kIF})(x as Integer, y as Float, result as Float, err)
//@   ensures[FI] x is Float && y is Integer ==> (err == nil ==> result is Float) && post({kFI})(x as Float, y as Integer, result as Float, err)
//@   ensures[FF] x is Float && y is Float ==> (err == nil ==> result is Float) && post({kF})(x as Float, y as Float, result as Float, err)
""")
numnum("add","addI","addIF","addFI","addF")
numnum("sub","subI","subIF","subFI","subF")
numnum("mul","mulI","mulIF","mulFI","mulF")
numnum("div","divII","divIF","divFI","divF","Float")
def intint(name, k, a="x", b="y"):
    w(f"""
//@ func {name}
//@   property C07
//@   modifies nothing
//@   ensures[II] {a} is Integer && {b} is Integer ==> (err == nil ==> result is Integer) && post({k})({a} as Integer, {b} as Integer, result as Integer, err)
//@   ensures[type-x] !({a} is Integer) ==> isTypeErr(err, validTypeInteger, {a})
//@   ensures[type-y] {a} is Integer && !({b} is Integer) ==> isTypeErr(err, validTypeInteger, {b})
""")
intint("intDiv","intDivI"); intint("rem","remI"); intint("mod","modI"); intint("intFloorDiv","intFloorDivI")
def bitop(name, op, a, b):
    w(f"""
//@ func {name}
//@   property C07
//@   modifies nothing
//@   ensures[II] {a} is Integer && {b} is Integer ==> err == nil && result is Integer && (result as Integer) == (({a} as Integer) {op} ({b} as Integer))
//@   ensures[type-x] !({a} is Integer) ==> isTypeErr(err, validTypeInteger, {a})
//@   ensures[type-y] {a} is Integer && !({b} is Integer) ==> isTypeErr(err, validTypeInteger, {b})
""")
bitop("bitwiseAnd","&","b1","b2"); bitop("bitwiseOr","|","b1","b2"); bitop("xor","^","x","y")
w("""
//@ func bitwiseComplement
//@   property C07
//@   modifies nothing
//@   ensures[I] b1 is Integer ==> err == nil && result is Integer && (result as Integer) == ^(b1 as Integer)
//@   ensures[type] !(b1 is Integer) ==> isTypeErr(err, validTypeInteger, b1)

//@ func bitwiseLeftShift
//@   property C07
//@   modifies nothing
//@   ensures[exact] n is Integer && s is Integer && 0 <= (s as Integer) && (s as Integer) <= 63 && inI64((n as Integer) * pow2(s as Integer))
//@       ==> err == nil && result is Integer && (result as Integer) == (n as Integer) * pow2(s as Integer)
//@   ensures[type-x] !(n is Integer) ==> isTypeErr(err, validTypeInteger, n)
//@   ensures[type-y] n is Integer && !(s is Integer) ==> isTypeErr(err, validTypeInteger, s)

//@ func bitwiseRightShift
//@   property C07
//@   modifies nothing
//@   ensures[exact] n is Integer && s is Integer && 0 <= (s as Integer) && (s as Integer) <= 63
//@       ==> err == nil && result is Integer && (result as Integer) == fdiv(n as Integer, pow2(s as Integer))
//@   ensures[type-x] !(n is Integer) ==> isTypeErr(err, validTypeInteger, n)
//@   ensures[type-y] n is Integer && !(s is Integer) ==> isTypeErr(err, validTypeInteger, s)
""")
def unary(name, kI, kF, kFerr):
    # kFerr: the float kernel returns (Float, error) if True, else Float
    fpost = f"post({kF})(x as Float, result as Float, err)" if kFerr else f"err == nil && post({kF})(x as Float, result as Float)"
    w(f"""
//@ func {name}
//@   property C07
//@   modifies nothing
//@   ensures[I] x is Integer ==> (err == nil ==> result is Integer) && post({kI})(x as Integer, result as Integer, err)
//@   ensures[F] x is Float ==> (err == nil ==> result is Float) && {fpost}
""")
unary("neg","negI","negF",False); unary("abs","absI","absF",False); unary("pos","posI","posF",True)
w("""
//@ func sign
//@   property C07
//@   modifies nothing
//@   ensures[I] x is Integer ==> err == nil && result is Integer && post(signI)(x as Integer, result as Integer)
//@   ensures[F] x is Float ==> err == nil && result is Float && post(signF)(x as Float, result as Float)

//@ func asFloat
//@   property C07
//@   modifies nothing
//@   ensures[I] x is Integer ==> err == nil && result is Float && post(floatItoF)(x as Integer, result as Float)
//@   ensures[F] x is Float ==> err == nil && result is Float && post(floatFtoF)(x as Float, result as Float)

//@ func floatIntegerPart
//@   property C07
//@   modifies nothing
//@   ensures[F] x is Float ==> err == nil && result is Float && post(intPartF)(x as Float, result as Float)
//@   ensures[type] !(x is Float) ==> isTypeErr(err, validTypeFloat, x)

//@ func floatFractionalPart
//@   property C07
//@   modifies nothing
//@   ensures[F] x is Float ==> err == nil && result is Float && post(fractPartF)(x as Float, result as Float)
//@   ensures[type] !(x is Float) ==> isTypeErr(err, validTypeFloat, x)
""")
for name,k in [("floor","floorFtoI"),("truncate","truncateFtoI"),("round","roundFtoI"),("ceiling","ceilingFtoI")]:
    w(f"""
//@ func {name}
//@   property C07
//@   modifies nothing
//@   ensures[F] x is Float ==> (err == nil ==> result is Integer) && post({k})(x as Float, result as Integer, err)
//@   ensures[type] !(x is Float) ==> isTypeErr(err, validTypeFloat, x)
""")
for name,lt in [("max","<"),("min",">")]:
    w(f"""
//@ func {name}
//@   property C07
//@   modifies nothing
//@   ensures[II] x is Integer && y is Integer ==> err == nil && result == ite((x as Integer) {lt} (y as Integer), y, x)
//@   ensures[IF] x is Integer && y is Float ==> err == nil && result == ite(f64(x as Integer) {lt} (y as Float), y, x)
//@   ensures[FI] x is Float && y is Integer ==> err == nil && result == ite((x as Float) {lt} f64(y as Integer), y, x)
//@   ensures[FF] x is Float && y is Float ==> err == nil && result == ite((x as Float) {lt} (y as Float), y, x)
""")
print("".join(out))
