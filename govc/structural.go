package main

type StructResult struct {
	Name   string
	OK     bool
	Detail string
}

// runStructural: frame/ownership obligations decided on the SSA itself (DESIGN 3.6)
func runStructural(P *Program, prop string) []StructResult {
	var out []StructResult
	for _, f := range structuralChecks {
		out = append(out, f(P, prop)...)
	}
	return out
}

var structuralChecks []func(P *Program, prop string) []StructResult

func solveLemmas(P *Program, prop string, budget, seed int) []*Result { return nil }
