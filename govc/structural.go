package main

import (
	"go/constant"
	"strconv"
	"fmt"
	"go/token"
	"go/types"
	"sort"
	"strings"

	"golang.org/x/tools/go/ssa"
)

type StructResult struct {
	Name   string
	OK     bool
	Detail string
}

// runStructural: frame/ownership obligations decided on the SSA itself (DESIGN 3.6)
func runStructural(P *Program, prop string) []StructResult {
	var out []StructResult
	for _, f := range structuralChecks {
		out = append(out, f(P, prop)...)
	}
	return out
}

var structuralChecks []func(P *Program, prop string) []StructResult

func solveLemmas(P *Program, prop string, budget, seed int) []*Result { return nil }

// frozen: `frozen a, b, c` on a function's contract: the named parameters are captured by closures (as cells) and must
// never be assigned after the function's entry, neither by the function nor by any of its closures: what a closure
// reads later is the value the function was called with.
func init() {
	structuralChecks = append(structuralChecks, checkFrozen)
}

func checkFrozen(P *Program, prop string) []StructResult {
	var out []StructResult
	for _, key := range P.FuncOrd {
		d := P.Funcs[key]
		if !hasProp(d.Props(), prop) {
			continue
		}
		for _, c := range d.Get("frozen") {
			fn := P.fnByKey[key]
			if fn == nil {
				continue
			}
			for _, name := range strings.Split(c.Text, ",") {
				name = strings.TrimSpace(name)
				res := StructResult{Name: key + ":frozen:" + name, OK: true}
				// the parameter and the cell it is spilled into
				var param *ssa.Parameter
				for _, p := range fn.Params {
					if p.Name() == name {
						param = p
					}
				}
				if param == nil {
					res.OK, res.Detail = false, "no such parameter"
					out = append(out, res)
					continue
				}
				var cell *ssa.Alloc
				if param.Referrers() != nil {
					for _, r := range *param.Referrers() {
						if st, ok := r.(*ssa.Store); ok && st.Val == param {
							if a, ok := st.Addr.(*ssa.Alloc); ok {
								cell = a
							}
						}
					}
				}
				if cell == nil {
					res.Detail = "parameter is not captured by reference (never reassigned by construction)"
					out = append(out, res)
					continue
				}
				n := countStores(cell, map[ssa.Value]bool{})
				if n != 1 {
					res.OK = false
					res.Detail = fmt.Sprintf("the captured variable %s is assigned %d time(s) besides its initialisation (in %s or one of its closures)", name, n-1, key)
				} else {
					res.Detail = "one store (the parameter spill), no assignment in any closure"
				}
				out = append(out, res)
			}
		}
	}
	return out
}

// countStores counts stores through an address, following closure captures
func countStores(v ssa.Value, seen map[ssa.Value]bool) int {
	if seen[v] || v.Referrers() == nil {
		return 0
	}
	seen[v] = true
	n := 0
	for _, r := range *v.Referrers() {
		switch x := r.(type) {
		case *ssa.Store:
			if x.Addr == v {
				n++
			}
		case *ssa.MakeClosure:
			fn := x.Fn.(*ssa.Function)
			for i, b := range x.Bindings {
				if b == v {
					n += countStores(fn.FreeVars[i], seen)
				}
			}
		}
	}
	return n
}

// ---------------------------------------------------------------- ctxflow (C13)
// Every call of (*Promise).Force must receive a context that is data-dependent on a context.Context parameter of the
// enclosing function or of a function whose closure it is. Exceptions are declared in the contract file:
//   //@ global ctxflow-exempt <function key> <reason>

func init() { structuralChecks = append(structuralChecks, checkCtxFlow) }

func isCtxType(t types.Type) bool {
	n, ok := t.(*types.Named)
	return ok && n.Obj().Name() == "Context" && n.Obj().Pkg() != nil && n.Obj().Pkg().Path() == "context"
}

func ctxDerived(v ssa.Value, seen map[ssa.Value]bool, depth int) (bool, string) {
	if seen[v] {
		return true, ""
	}
	seen[v] = true
	if depth > 12 {
		return false, "derivation too deep"
	}
	switch x := v.(type) {
	case *ssa.Parameter:
		if isCtxType(x.Type()) {
			return true, ""
		}
		return false, "parameter " + x.Name() + " is not a context"
	case *ssa.FreeVar:
		// captured variable: find the binding in the parent's MakeClosure
		fn := x.Parent()
		idx := -1
		for i, fv := range fn.FreeVars {
			if fv == x {
				idx = i
			}
		}
		par := fn.Parent()
		if par == nil || idx < 0 {
			return false, "free variable without parent"
		}
		found := false
		for _, b := range par.Blocks {
			for _, in := range b.Instrs {
				if mc, ok := in.(*ssa.MakeClosure); ok && mc.Fn == fn {
					found = true
					if ok, why := ctxDerived(mc.Bindings[idx], seen, depth+1); !ok {
						return false, why
					}
				}
			}
		}
		if !found {
			return false, "closure creation not found"
		}
		return true, ""
	case *ssa.UnOp: // load of a cell: every store into the cell must be derived
		if x.Op != token.MUL {
			return false, "unexpected operation"
		}
		return ctxCell(x.X, seen, depth+1)
	case *ssa.Phi:
		for _, e := range x.Edges {
			if ok, why := ctxDerived(e, seen, depth+1); !ok {
				return false, why
			}
		}
		return true, ""
	case *ssa.Extract:
		return ctxDerived(x.Tuple, seen, depth+1)
	case *ssa.Call:
		if callee := x.Call.StaticCallee(); callee != nil && callee.Pkg != nil && callee.Pkg.Pkg.Path() == "context" {
			switch callee.Name() {
			case "WithCancel", "WithTimeout", "WithDeadline", "WithValue", "WithCancelCause", "WithoutCancel":
				if callee.Name() == "WithoutCancel" {
					return false, "context.WithoutCancel drops cancellation"
				}
				return ctxDerived(x.Call.Args[0], seen, depth+1)
			case "Background", "TODO":
				return false, "context." + callee.Name() + "() is not derived from the caller's context"
			}
		}
		return false, "result of a call that is not a context constructor"
	case *ssa.ChangeInterface:
		return ctxDerived(x.X, seen, depth+1)
	case *ssa.MakeInterface:
		return ctxDerived(x.X, seen, depth+1)
	}
	return false, fmt.Sprintf("value %s (%T) is not derived from a context parameter", v.Name(), v)
}

func ctxCell(addr ssa.Value, seen map[ssa.Value]bool, depth int) (bool, string) {
	switch a := addr.(type) {
	case *ssa.Alloc, *ssa.FreeVar:
		// all stores into the cell (here and in closures sharing it)
		root := addr
		if fv, ok := a.(*ssa.FreeVar); ok {
			// resolve to the binding in the parent
			fn := fv.Parent()
			idx := -1
			for i, f := range fn.FreeVars {
				if f == fv {
					idx = i
				}
			}
			par := fn.Parent()
			if par == nil || idx < 0 {
				return false, "free variable without parent"
			}
			for _, b := range par.Blocks {
				for _, in := range b.Instrs {
					if mc, ok := in.(*ssa.MakeClosure); ok && mc.Fn == fn {
						return ctxCell(mc.Bindings[idx], seen, depth+1)
					}
				}
			}
			return false, "closure creation not found"
		}
		stores := collectStores(root, map[ssa.Value]bool{})
		if len(stores) == 0 {
			return false, "cell is never assigned"
		}
		for _, s := range stores {
			if ok, why := ctxDerived(s.Val, seen, depth+1); !ok {
				return false, why
			}
		}
		return true, ""
	}
	return false, "context loaded from memory that is not a local variable"
}

func collectStores(v ssa.Value, seen map[ssa.Value]bool) []*ssa.Store {
	if seen[v] || v.Referrers() == nil {
		return nil
	}
	seen[v] = true
	var out []*ssa.Store
	for _, r := range *v.Referrers() {
		switch x := r.(type) {
		case *ssa.Store:
			if x.Addr == v {
				out = append(out, x)
			}
		case *ssa.MakeClosure:
			fn := x.Fn.(*ssa.Function)
			for i, b := range x.Bindings {
				if b == v {
					out = append(out, collectStores(fn.FreeVars[i], seen)...)
				}
			}
		}
	}
	return out
}

func checkCtxFlow(P *Program, prop string) []StructResult {
	if prop != "C13" {
		return nil
	}
	exempt := map[string]string{}
	for _, d := range P.Decls {
		if d.Kind == "global" && d.Name == "ctxflow-exempt" {
			f := strings.Fields(d.Attr)
			if len(f) > 0 {
				exempt[f[0]] = strings.TrimSpace(strings.TrimPrefix(d.Attr, f[0]))
			}
		}
	}
	var out []StructResult
	count := map[string]int{}
	for _, fn := range P.allFuncs {
		for _, b := range fn.Blocks {
			for _, in := range b.Instrs {
				call, ok := in.(ssa.CallInstruction)
				if !ok {
					continue
				}
				callee := call.Common().StaticCallee()
				if callee != nil && fnKey(callee) != "engine.(*Promise).Force" && hasCtxParam(fn) {
					// a function that was given a context hands *that* context on to whatever it calls with one (a callee
					// that will Force under a detached context is as uncancellable as a detached Force)
					key := fnKey(fn)
					for ai, a := range call.Common().Args {
						if !isCtxType(a.Type()) {
							continue
						}
						count[key+"/arg"]++
						name := fmt.Sprintf("%s:ctxflow-arg:%d", key, count[key+"/arg"])
						if why, ok := exempt[key]; ok {
							out = append(out, StructResult{Name: name, OK: true, Detail: "exempt: " + why})
							continue
						}
						ok2, why := ctxDerived(a, map[ssa.Value]bool{}, 0)
						res := StructResult{Name: name, OK: ok2, Detail: "the context passed on derives from the function's own context"}
						if !ok2 {
							res.Detail = fmt.Sprintf("argument %d of the call of %s is a context that is not derived from the caller's own context: %s (%s)", ai, fnKey(callee), why, posOf(fn, in.Pos()))
						}
						out = append(out, res)
					}
					continue
				}
				if callee == nil || fnKey(callee) != "engine.(*Promise).Force" {
					continue
				}
				key := fnKey(fn)
				count[key]++
				name := fmt.Sprintf("%s:ctxflow:%d", key, count[key])
				if why, ok := exempt[key]; ok {
					out = append(out, StructResult{Name: name, OK: true, Detail: "exempt: " + why})
					continue
				}
				ok2, why := ctxDerived(call.Common().Args[1], map[ssa.Value]bool{}, 0)
				res := StructResult{Name: name, OK: ok2, Detail: why}
				if ok2 {
					res.Detail = "the context argument derives from a context parameter"
				} else {
					res.Detail = "the context passed to Force is not derived from the caller's context: " + why + " (" + posOf(fn, in.Pos()) + ")"
				}
				out = append(out, res)
			}
		}
	}
	return out
}

// ---------------------------------------------------------------- monotone flags (C12)
//   //@ global monotone-flag <pkg>.<Type>.<field> <property>
// Every store to the field, anywhere in both packages, stores the constant true (or initialises an object allocated
// in the same function): the typestate only ever moves forward, whatever the call history.

func init() { structuralChecks = append(structuralChecks, checkMonotoneFlags) }

func checkMonotoneFlags(P *Program, prop string) []StructResult {
	var out []StructResult
	for _, d := range P.Decls {
		if d.Kind != "global" || d.Name != "monotone-flag" {
			continue
		}
		f := strings.Fields(d.Attr)
		if len(f) < 2 || f[1] != prop {
			continue
		}
		parts := strings.Split(f[0], ".")
		if len(parts) != 3 {
			continue
		}
		res := StructResult{Name: "monotone-flag:" + f[0], OK: true}
		n := 0
		for _, fn := range P.allFuncs {
			for _, b := range fn.Blocks {
				for _, in := range b.Instrs {
					st, ok := in.(*ssa.Store)
					if !ok {
						continue
					}
					fa, ok := st.Addr.(*ssa.FieldAddr)
					if !ok {
						continue
					}
					pt, ok := fa.X.Type().Underlying().(*types.Pointer)
					if !ok {
						continue
					}
					named, ok := pt.Elem().(*types.Named)
					if !ok || named.Obj().Name() != parts[1] || named.Obj().Pkg() == nil || named.Obj().Pkg().Name() != parts[0] {
						continue
					}
					stT := named.Underlying().(*types.Struct)
					if stT.Field(fa.Field).Name() != parts[2] {
						continue
					}
					n++
					if c, ok := st.Val.(*ssa.Const); ok && c.Value != nil && c.Value.String() == "true" {
						continue
					}
					if _, fresh := fa.X.(*ssa.Alloc); fresh {
						continue
					}
					res.OK = false
					res.Detail += fmt.Sprintf("%s stores a value other than the constant true into %s (%s); ", fnKey(fn), f[0], posOf(fn, st.Pos()))
				}
			}
		}
		if res.OK {
			res.Detail = fmt.Sprintf("%d store(s), all of the constant true or initialisations", n)
		}
		out = append(out, res)
	}
	return out
}

// ---------------------------------------------------------------- package-level state (C14)
// Two interpreters share nothing but package-level variables. Discipline per variable (default: write-once):
//   //@ global <name> write-once | atomic [except f,g] | guarded-by | test-hook
// write-once : stored only by package initialisation; nothing reachable through it (map entries, slice elements,
//              fields) is written outside initialisation either (value flow followed inside each function)
// atomic     : every reference is an argument of a sync/atomic function
// guarded-by : (a struct embedding sync.RWMutex) every read of its fields is dominated by Lock/RLock on it, every write
//              by Lock, unlocking only by defer; and a write's critical section also contains every guarded read that
//              precedes it (check-then-act in one critical section)
// test-hook  : written only from _test.go files (not part of the loaded program)

func init() { structuralChecks = append(structuralChecks, checkGlobals) }

func isInitFn(fn *ssa.Function) bool {
	return fn.Parent() == nil && (fn.Name() == "init" || strings.HasPrefix(fn.Name(), "init#"))
}

// derivedFromGlobal: does v denote memory reachable from global g (its address, a load of it, or an address/value
// obtained from those by field/index/slice operations)?
func derivedFromGlobal(v ssa.Value, g *ssa.Global, depth int) bool {
	if depth > 8 {
		return false
	}
	switch x := v.(type) {
	case *ssa.Global:
		return x == g
	case *ssa.FieldAddr:
		return derivedFromGlobal(x.X, g, depth+1)
	case *ssa.IndexAddr:
		return derivedFromGlobal(x.X, g, depth+1)
	case *ssa.Field:
		return derivedFromGlobal(x.X, g, depth+1)
	case *ssa.Index:
		return derivedFromGlobal(x.X, g, depth+1)
	case *ssa.Slice:
		return derivedFromGlobal(x.X, g, depth+1)
	case *ssa.ChangeType:
		return derivedFromGlobal(x.X, g, depth+1)
	case *ssa.UnOp:
		if x.Op == token.MUL {
			// a load from a local cell yields whatever was stored into the cell; the cell may itself be reached through
			// another cell that holds its address (pn := &node; (*pn).f = ...)
			if cells := localCellsOf(x.X); len(cells) > 0 {
				for _, a := range cells {
					if a.Referrers() == nil {
						continue
					}
					for _, r := range *a.Referrers() {
						if st, ok := r.(*ssa.Store); ok && st.Addr == ssa.Value(a) && derivedFromGlobal(st.Val, g, depth+1) {
							return true
						}
					}
				}
				return false
			}
			return derivedFromGlobal(x.X, g, depth+1)
		}
	case *ssa.Phi:
		for _, e := range x.Edges {
			if derivedFromGlobal(e, g, depth+1) {
				return true
			}
		}
	}
	return false
}

func checkGlobals(P *Program, prop string) []StructResult {
	// every package-level variable belongs to C14; a declaration `global g <discipline> also Cxx` makes the same
	// obligation part of another property's check as well (atomTable: atoms are canonical, C02)
	var out []StructResult
	for _, path := range []string{enginePath, rootPath} {
		pkg := P.Pkgs[path]
		var names []string
		for n, m := range pkg.Members {
			if _, ok := m.(*ssa.Global); ok && !strings.HasPrefix(n, "init$") {
				names = append(names, n)
			}
		}
		sort.Strings(names)
		for _, n := range names {
			g := pkg.Members[n].(*ssa.Global)
			disc, except := "write-once", map[string]bool{}
			also := map[string]bool{}
			if d, ok := P.Globals[n]; ok {
				f := strings.Fields(d.Attr)
				if len(f) > 0 {
					disc = f[0]
				}
				for i, w := range f {
					if w == "also" {
						for _, e := range f[i+1:] {
							if e == "except" {
								break
							}
							also[e] = true
						}
					}
					if w == "except" && i+1 < len(f) {
						for _, e := range strings.Split(f[i+1], ",") {
							except[e] = true
						}
					}
				}
			}
			if prop != "C14" && !also[prop] {
				continue
			}
			res := StructResult{Name: "global:" + pkg.Pkg.Name() + "." + n + ":" + disc, OK: true}
			var bad []string
			for _, fn := range P.allFuncs {
				if except[fn.Name()] {
					continue
				}
				switch disc {
				case "write-once", "test-hook":
					if isInitFn(fn) {
						continue
					}
					for _, b := range fn.Blocks {
						for _, in := range b.Instrs {
							switch x := in.(type) {
							case *ssa.Store:
								if derivedFromGlobal(x.Addr, g, 0) {
									bad = append(bad, fmt.Sprintf("%s writes memory reachable from it (%s)", fnKey(fn), posOf(fn, x.Pos())))
								}
							case *ssa.MapUpdate:
								if derivedFromGlobal(x.Map, g, 0) {
									bad = append(bad, fmt.Sprintf("%s updates a map reachable from it (%s)", fnKey(fn), posOf(fn, x.Pos())))
								}
							case ssa.CallInstruction:
								c := x.Common()
								if bi, ok := c.Value.(*ssa.Builtin); ok && (bi.Name() == "delete" || bi.Name() == "copy") && len(c.Args) > 0 && derivedFromGlobal(c.Args[0], g, 0) {
									bad = append(bad, fmt.Sprintf("%s deletes from / copies into memory reachable from it (%s)", fnKey(fn), posOf(fn, x.Pos())))
								}
								if callee := c.StaticCallee(); callee != nil {
									for ai, a := range c.Args {
										if writesThroughParam(P, callee, ai) && derivedFromGlobal(a, g, 0) {
											bad = append(bad, fmt.Sprintf("%s passes memory reachable from it to %s, which writes through that parameter (%s)", fnKey(fn), fnKey(callee), posOf(fn, x.Pos())))
										}
									}
								} else if c.IsInvoke() {
									// a call through an interface: any method of that name in the two packages may be the callee
									for _, cand := range methodsNamed(P, c.Method.Name(), len(c.Args)) {
										for ai, a := range c.Args {
											if writesThroughParam(P, cand, ai+1) && derivedFromGlobal(a, g, 0) {
												bad = append(bad, fmt.Sprintf("%s passes memory reachable from it to %s (through an interface), which writes through that parameter (%s)", fnKey(fn), fnKey(cand), posOf(fn, x.Pos())))
											}
										}
									}
								}
							}
						}
					}
				case "atomic":
					for _, b := range fn.Blocks {
						for _, in := range b.Instrs {
							if _, isDbg := in.(*ssa.DebugRef); isDbg {
								continue
							}
							for _, op := range in.Operands(nil) {
								if *op != ssa.Value(g) {
									continue
								}
								ok := false
								if ci, isCall := in.(ssa.CallInstruction); isCall {
									if callee := ci.Common().StaticCallee(); callee != nil {
										if callee.Pkg != nil && callee.Pkg.Pkg.Path() == "sync/atomic" {
											ok = true
										}
										if o := callee.Object(); o != nil && o.Pkg() != nil && o.Pkg().Path() == "sync/atomic" {
											ok = true
										}
									}
								}
								if !ok {
									if ci, isCall := in.(ssa.CallInstruction); isCall {
										if callee := ci.Common().StaticCallee(); callee != nil && strings.HasPrefix(callee.String(), "sync/atomic.") {
											ok = true
										}
									}
								}
								if !ok {
									bad = append(bad, fmt.Sprintf("%s accesses it without sync/atomic (%s) [%T %v]", fnKey(fn), posOf(fn, in.Pos()), in, in))
									continue
								}
								// every update is one indivisible read-modify-write: a Store/Swap publishes a value computed from
								// an earlier load, so two updates can be lost or repeated although each access is atomic
								if ci, isCall := in.(ssa.CallInstruction); isCall {
									if callee := ci.Common().StaticCallee(); callee != nil {
										n := callee.Name()
										if strings.HasPrefix(n, "Store") || strings.HasPrefix(n, "Swap") {
											bad = append(bad, fmt.Sprintf("%s updates it with atomic.%s, which is not a read-modify-write (%s)", fnKey(fn), n, posOf(fn, in.Pos())))
										}
										if strings.HasPrefix(n, "Add") || strings.HasPrefix(n, "CompareAndSwap") {
											// what the function goes on with must be the update's own result: a separate Load in the
											// same function reads a value another goroutine may have moved on from
											if v, ok := in.(ssa.Value); !ok || v.Referrers() == nil || len(nonDebugRefs(v)) == 0 {
												bad = append(bad, fmt.Sprintf("%s discards the result of atomic.%s (%s)", fnKey(fn), n, posOf(fn, in.Pos())))
											}
											for _, b2 := range fn.Blocks {
												for _, in2 := range b2.Instrs {
													if c2, ok := in2.(ssa.CallInstruction); ok && in2 != in {
														if ce := c2.Common().StaticCallee(); ce != nil && strings.HasPrefix(ce.Name(), "Load") && len(c2.Common().Args) > 0 && c2.Common().Args[0] == ssa.Value(g) {
															bad = append(bad, fmt.Sprintf("%s reads it with atomic.%s next to its atomic.%s: the value read is not the update's result (%s)", fnKey(fn), ce.Name(), n, posOf(fn, in2.Pos())))
														}
													}
												}
											}
										}
									}
								}
							}
						}
					}
				case "guarded-by":
					if isInitFn(fn) {
						continue // package initialisation runs before any other goroutine can exist
					}
					bad = append(bad, lockDiscipline(fn, g)...)
				}
			}
			if len(bad) > 0 {
				res.OK = false
				res.Detail = strings.Join(bad, "; ")
			}
			out = append(out, res)
		}
	}
	return out
}

// lockDiscipline for a guarded global (struct embedding sync.RWMutex as its first field)
func lockDiscipline(fn *ssa.Function, g *ssa.Global) []string {
	type acc struct {
		in    ssa.Instruction
		write bool
	}
	var accs []acc
	type lk struct {
		in   ssa.Instruction
		kind string // Lock RLock Unlock RUnlock
		def  bool
	}
	var locks []lk
	isMutexOfG := func(v ssa.Value) bool {
		fa, ok := v.(*ssa.FieldAddr)
		return ok && fa.X == ssa.Value(g) && fa.Field == 0
	}
	for _, b := range fn.Blocks {
		for _, in := range b.Instrs {
			switch x := in.(type) {
			case *ssa.Store:
				if derivedFromGlobal(x.Addr, g, 0) {
					accs = append(accs, acc{in, true})
				}
			case *ssa.MapUpdate:
				if derivedFromGlobal(x.Map, g, 0) {
					accs = append(accs, acc{in, true})
				}
			case *ssa.Call:
				if bi, ok := x.Call.Value.(*ssa.Builtin); ok && (bi.Name() == "delete" || bi.Name() == "clear" || bi.Name() == "copy") && len(x.Call.Args) > 0 && derivedFromGlobal(x.Call.Args[0], g, 0) {
					accs = append(accs, acc{in, true})
					continue
				}
				c := x.Common()
				callee := c.StaticCallee()
				if callee == nil || callee.Pkg == nil || callee.Pkg.Pkg.Path() != "sync" || len(c.Args) == 0 || !isMutexOfG(c.Args[0]) {
					continue
				}
				locks = append(locks, lk{in, callee.Name(), false})
				continue
			case *ssa.UnOp:
				if x.Op == token.MUL && derivedFromGlobal(x.X, g, 0) {
					if fa, ok := x.X.(*ssa.FieldAddr); ok && fa.X == ssa.Value(g) && fa.Field == 0 {
						continue
					}
					accs = append(accs, acc{in, false})
				}
			case *ssa.Lookup:
				if derivedFromGlobal(x.X, g, 0) {
					accs = append(accs, acc{in, false})
				}
			case ssa.CallInstruction:
				c := x.Common()
				callee := c.StaticCallee()
				if callee == nil || callee.Pkg == nil || callee.Pkg.Pkg.Path() != "sync" || len(c.Args) == 0 || !isMutexOfG(c.Args[0]) {
					continue
				}
				_, isDefer := in.(*ssa.Defer)
				locks = append(locks, lk{in, callee.Name(), isDefer})
			}
		}
	}
	if len(accs) == 0 {
		return nil
	}
	before := func(a, b ssa.Instruction) bool { // a executes before b on every path to b
		if a.Block() == b.Block() {
			for _, in := range a.Block().Instrs {
				if in == a {
					return true
				}
				if in == b {
					return false
				}
			}
		}
		return a.Block().Dominates(b.Block())
	}
	var bad []string
	// every lock taken is released by a deferred unlock of the same kind (otherwise the next locker waits for ever)
	for _, l := range locks {
		if l.def || (l.kind != "Lock" && l.kind != "RLock") {
			continue
		}
		want := map[string]string{"Lock": "Unlock", "RLock": "RUnlock"}[l.kind]
		found := false
		for _, u := range locks {
			if u.def && u.kind == want {
				found = true
			}
		}
		if !found {
			bad = append(bad, fmt.Sprintf("%s takes the lock with %s but has no deferred %s (%s)", fnKey(fn), l.kind, want, posOf(fn, l.in.Pos())))
		}
	}
	// explicit (non-deferred) unlocks are not allowed in functions that touch the guarded state
	for _, l := range locks {
		if (l.kind == "Unlock" || l.kind == "RUnlock") && !l.def {
			bad = append(bad, fmt.Sprintf("%s unlocks explicitly (only deferred unlocks keep the critical section to the return) (%s)", fnKey(fn), posOf(fn, l.in.Pos())))
		}
	}
	section := func(a acc) *lk {
		var best *lk
		for i := range locks {
			l := &locks[i]
			if l.def || (l.kind != "Lock" && l.kind != "RLock") {
				continue
			}
			if a.write && l.kind != "Lock" {
				continue
			}
			if before(l.in, a.in) {
				best = l
			}
		}
		return best
	}
	for _, a := range accs {
		s := section(a)
		if s == nil {
			what := "reads"
			if a.write {
				what = "writes"
			}
			bad = append(bad, fmt.Sprintf("%s %s guarded state without holding the %s (%s)", fnKey(fn), what, map[bool]string{true: "write lock", false: "lock"}[a.write], posOf(fn, a.in.Pos())))
			continue
		}
		if a.write {
			// check-then-act: every guarded read that precedes the write lies in the same critical section
			for _, r := range accs {
				if r.write || !before(r.in, a.in) {
					continue
				}
				if !before(s.in, r.in) {
					bad = append(bad, fmt.Sprintf("%s decides on a read of the guarded state made outside the critical section of the write that follows (%s)", fnKey(fn), posOf(fn, r.in.Pos())))
				}
			}
		}
	}
	return bad
}

// ---------------------------------------------------------------- captured copies (C09)
//   //@ func F ... / captures-copy c clause
// The closure F captures the variable c, and c holds a value of the named struct type (a copy made before the closure
// was created), not a pointer into shared storage: what the closure reads later is what existed when it was created.

func init() { structuralChecks = append(structuralChecks, checkCapturesCopy) }

func checkCapturesCopy(P *Program, prop string) []StructResult {
	var out []StructResult
	for _, key := range P.FuncOrd {
		d := P.Funcs[key]
		if !hasProp(d.Props(), prop) {
			continue
		}
		for _, c := range d.Get("captures-copy") {
			f := strings.Fields(c.Text)
			if len(f) != 2 {
				continue
			}
			res := StructResult{Name: key + ":captures-copy:" + f[0], OK: false, Detail: "no such captured variable"}
			fn := P.fnByKey[key]
			if fn != nil {
				for _, fv := range fn.FreeVars {
					if fv.Name() != f[0] {
						continue
					}
					pt, ok := fv.Type().Underlying().(*types.Pointer)
					if !ok {
						res.Detail = "captured by value"
						res.OK = true
						break
					}
					elem := types.TypeString(pt.Elem(), func(*types.Package) string { return "" })
					if elem == f[1] {
						res.OK, res.Detail = true, "the captured variable holds a "+f[1]+" value (its own copy)"
					} else {
						res.Detail = fmt.Sprintf("the captured variable %s has type %s, not %s: it refers to shared storage", f[0], elem, f[1])
					}
				}
			}
			out = append(out, res)
		}
	}
	return out
}

// ---------------------------------------------------------------- resolve before inspecting (C03, C10, C11)
//   //@ func F / resolves-before-inspecting
// Every type test (type switch, type assertion) that F applies to a Term must be applied to a term that went through
// Env.Resolve (or to a narrowing of one): the shape of a term is only meaningful after the bindings in force have been
// followed. A test on a raw argument of a compound sees a variable where the caller sees its binding.

func init() { structuralChecks = append(structuralChecks, checkResolveBeforeInspect) }

func isTermIface(t types.Type) bool {
	n, ok := t.(*types.Named)
	return ok && n.Obj().Name() == "Term" && n.Obj().Pkg() != nil && n.Obj().Pkg().Path() == enginePath
}

func resolvedValue(v ssa.Value, seen map[ssa.Value]bool, depth int) bool {
	if seen[v] {
		return true
	}
	seen[v] = true
	if depth > 10 {
		return false
	}
	switch x := v.(type) {
	case *ssa.Call:
		if callee := x.Call.StaticCallee(); callee != nil {
			switch fnKey(callee) {
			case "engine.(*Env).Resolve", "engine.(*Env).simplify", "engine.(*Env).lookup":
				return true
			}
		}
		return false
	case *ssa.Extract:
		return resolvedValue(x.Tuple, seen, depth+1)
	case *ssa.TypeAssert:
		return resolvedValue(x.X, seen, depth+1)
	case *ssa.ChangeInterface:
		return resolvedValue(x.X, seen, depth+1)
	case *ssa.MakeInterface:
		return true // a value of a concrete term type, boxed: its kind is known
	case *ssa.Phi:
		for _, e := range x.Edges {
			if !resolvedValue(e, seen, depth+1) {
				return false
			}
		}
		return true
	case *ssa.Const:
		return true
	}
	return false
}

func checkResolveBeforeInspect(P *Program, prop string) []StructResult {
	var out []StructResult
	for _, key := range P.FuncOrd {
		d := P.Funcs[key]
		if !hasProp(d.Props(), prop) || !d.Has("resolves-before-inspecting") {
			continue
		}
		fn := P.fnByKey[key]
		res := StructResult{Name: key + ":resolves-before-inspecting", OK: true}
		if fn == nil {
			res.OK, res.Detail = false, "no such function"
			out = append(out, res)
			continue
		}
		n := 0
		for _, b := range fn.Blocks {
			for _, in := range b.Instrs {
				ta, ok := in.(*ssa.TypeAssert)
				if !ok || !isTermIface(ta.X.Type()) {
					continue
				}
				n++
				if !resolvedValue(ta.X, map[ssa.Value]bool{}, 0) {
					res.OK = false
					res.Detail += fmt.Sprintf("type test on a term that did not go through Env.Resolve (%s); ", posOf(fn, ta.Pos()))
				}
			}
		}
		if res.OK {
			res.Detail = fmt.Sprintf("%d type test(s) on terms, all on resolved terms", n)
		}
		out = append(out, res)
	}
	return out
}

// ---------------------------------------------------------------- immutable types (C02)
//   //@ type Env immutable
// Every store to a field of the type, anywhere in both packages, targets an object allocated in the same activation
// (a fresh copy that nobody else can see yet), or the pointee of a parameter whose every actual argument, at every
// call site, is such a fresh object. Published objects of the type are therefore never modified: an environment
// handed out before a binding was added still denotes the same bindings afterwards.

func init() { structuralChecks = append(structuralChecks, checkImmutableTypes) }

func rootOfAddr(v ssa.Value) ssa.Value {
	for {
		switch x := v.(type) {
		case *ssa.FieldAddr:
			v = x.X
		case *ssa.IndexAddr:
			v = x.X
		default:
			return v
		}
	}
}

func checkImmutableTypes(P *Program, prop string) []StructResult {
	if prop != "C02" {
		return nil
	}
	var out []StructResult
	for tname, attr := range P.TypeAttr {
		if strings.TrimSpace(attr) != "immutable" {
			continue
		}
		res := StructResult{Name: "immutable:" + tname, OK: true}
		n := 0
		var bad []string
		// parameters through which fields of the type are stored
		storesVia := map[*ssa.Parameter]bool{}
		for _, fn := range P.allFuncs {
			for _, b := range fn.Blocks {
				for _, in := range b.Instrs {
					st, ok := in.(*ssa.Store)
					if !ok {
						continue
					}
					// the outermost struct the field chain starts in
					root := rootOfAddr(st.Addr)
					// does the chain pass through the immutable type?
					touches := false
					if pt, ok := st.Addr.Type().Underlying().(*types.Pointer); ok {
						if nm, ok := pt.Elem().(*types.Named); ok && nm.Obj().Name() == tname {
							touches = true // the whole object is overwritten
						}
					}
					for cur := st.Addr; ; {
						f, ok := cur.(*ssa.FieldAddr)
						if !ok {
							break
						}
						if pt, ok := f.X.Type().Underlying().(*types.Pointer); ok {
							if nm, ok := pt.Elem().(*types.Named); ok && nm.Obj().Name() == tname {
								touches = true
							}
						}
						cur = f.X
					}
					if !touches {
						continue
					}
					n++
					switch r := root.(type) {
					case *ssa.Alloc:
						// a copy made in this activation
					case *ssa.Parameter:
						storesVia[r] = true
					default:
						bad = append(bad, fmt.Sprintf("%s stores into a %s it did not allocate (%s)", fnKey(fn), tname, posOf(fn, st.Pos())))
					}
				}
			}
		}
		// a fresh object is complete when it is published: no store into it after the first point where it leaves the
		// activation's hands (the point where its abstract view is defined, see publicationPoints)
		for _, fn := range P.allFuncs {
			for _, b := range fn.Blocks {
				for _, in := range b.Instrs {
					a, ok := in.(*ssa.Alloc)
					if !ok || a.Referrers() == nil {
						continue
					}
					nm, ok := a.Type().Underlying().(*types.Pointer).Elem().(*types.Named)
					if !ok || nm.Obj().Name() != tname {
						continue
					}
					var esc []ssa.Instruction
					for _, r := range *a.Referrers() {
						if isEscape(r, a) {
							esc = append(esc, r)
						}
					}
					for _, b2 := range fn.Blocks {
						for _, in2 := range b2.Instrs {
							st, ok := in2.(*ssa.Store)
							if !ok || rootOfAddr(st.Addr) != ssa.Value(a) {
								continue
							}
							for _, e := range esc {
								if e != ssa.Instruction(st) && instrDominates(e, st) {
									bad = append(bad, fmt.Sprintf("%s stores into a %s after publishing it (%s)", fnKey(fn), tname, posOf(fn, st.Pos())))
								}
							}
						}
					}
				}
			}
		}
		// every call site of a function that stores through a parameter passes a fresh object for it
		for p := range storesVia {
			callee := p.Parent()
			idx := -1
			for i, q := range callee.Params {
				if q == p {
					idx = i
				}
			}
			for _, fn := range P.allFuncs {
				for _, b := range fn.Blocks {
					for _, in := range b.Instrs {
						ci, ok := in.(ssa.CallInstruction)
						if !ok || ci.Common().StaticCallee() != callee {
							continue
						}
						if _, fresh := rootOfAddr(ci.Common().Args[idx]).(*ssa.Alloc); !fresh {
							bad = append(bad, fmt.Sprintf("%s passes a %s it did not allocate to %s, which modifies it (%s)", fnKey(fn), tname, fnKey(callee), posOf(fn, in.Pos())))
						}
					}
				}
			}
		}
		if len(bad) > 0 {
			res.OK, res.Detail = false, strings.Join(bad, "; ")
		} else {
			res.Detail = fmt.Sprintf("%d store(s) to fields of %s, all into objects allocated in the same activation (or into a fresh object passed by the only callers)", n, tname)
		}
		out = append(out, res)
	}
	return out
}

// ---------------------------------------------------------------- the environment of a failed unification is dead (C02)
//   //@ func F / unify-result-checked
// In F, the environment returned by Env.Unify / unify / unifyWithOccursCheck is used only where the accompanying
// success flag is known to be true.

func init() { structuralChecks = append(structuralChecks, checkUnifyResult) }

func checkUnifyResult(P *Program, prop string) []StructResult {
	var out []StructResult
	for _, key := range P.FuncOrd {
		d := P.Funcs[key]
		if !hasProp(d.Props(), prop) || !d.Has("unify-result-checked") {
			continue
		}
		fn := P.fnByKey[key]
		res := StructResult{Name: key + ":unify-result-checked", OK: true}
		if fn == nil {
			res.OK, res.Detail = false, "no such function"
			out = append(out, res)
			continue
		}
		n := 0
		for _, b := range fn.Blocks {
			for _, in := range b.Instrs {
				call, ok := in.(*ssa.Call)
				if !ok {
					continue
				}
				callee := call.Call.StaticCallee()
				if callee == nil {
					continue
				}
				switch fnKey(callee) {
				case "engine.(*Env).Unify", "engine.(*Env).unify", "engine.(*Env).unifyWithOccursCheck":
				default:
					continue
				}
				n++
				var envV, okV ssa.Value
				for _, r := range *call.Referrers() {
					if ex, ok := r.(*ssa.Extract); ok {
						if ex.Index == 0 {
							envV = ex
						} else {
							okV = ex
						}
					}
				}
				if envV == nil || envV.Referrers() == nil {
					continue
				}
				for _, use := range *envV.Referrers() {
					if _, isDbg := use.(*ssa.DebugRef); isDbg {
						continue
					}
					if ret, isRet := use.(*ssa.Return); isRet && okV != nil {
						// returning (env, ok) together hands the obligation to the caller
						both := false
						for _, r := range ret.Results {
							if r == okV {
								both = true
							}
						}
						if both {
							continue
						}
					}
					if phi, isPhi := use.(*ssa.Phi); isPhi && okV != nil && pairedPhiChecked(phi, envV, okV, 0) {
						continue
					}
					if stc, isStore := use.(*ssa.Store); isStore && okV != nil && stc.Val == envV {
						if cell, isAlloc := stc.Addr.(*ssa.Alloc); isAlloc {
							// the environment variable lives in a cell (it is captured by a closure): follow the
							// control flow from the store and require a true test of the flag before any read
							if bad := cellReadBeforeTest(fn, cell, stc, okV); bad == nil {
								continue
							} else {
								res.OK = false
								res.Detail += fmt.Sprintf("the environment stored at %s is read at %s without its success flag having been tested true; ", posOf(fn, stc.Pos()), posOf(fn, bad.Pos()))
								continue
							}
						}
					}
					if okV == nil || !dominatedByTrue(okV, use.Block()) {
						res.OK = false
						res.Detail += fmt.Sprintf("the environment of a unification is used without its success flag being true (%s); ", posOf(fn, use.Pos()))
					}
				}
			}
		}
		if res.OK {
			res.Detail = fmt.Sprintf("%d unification(s), every use of the resulting environment is on the success branch", n)
		}
		out = append(out, res)
	}
	return out
}

// cellReadBeforeTest: forward data flow from the store `*cell = env` of a unification result. The state is the set of
// SSA values known to equal the unification's success flag on the path walked so far (the flag itself, and phis that
// received it along the edge taken). Control does not continue along the true edge of a branch on such a value; a
// later store to the cell ends the path (that store is checked on its own). Any other use of the cell reached is
// returned: a read of the environment of a unification whose success has not been established.
func cellReadBeforeTest(fn *ssa.Function, cell *ssa.Alloc, start *ssa.Store, okV ssa.Value) ssa.Instruction {
	type set map[ssa.Value]bool
	state := map[*ssa.BasicBlock]set{}
	usesCell := func(in ssa.Instruction) bool {
		for _, op := range in.Operands(nil) {
			if *op == ssa.Value(cell) {
				return true
			}
		}
		return false
	}
	// walk instructions of b from index i with the given set; returns a violating instruction or nil, and the
	// successors to continue with
	var work []*ssa.BasicBlock
	walk := func(b *ssa.BasicBlock, from int, cur set) ssa.Instruction {
		for _, in := range b.Instrs[from:] {
			if _, isDbg := in.(*ssa.DebugRef); isDbg {
				continue
			}
			if st, ok := in.(*ssa.Store); ok && st.Addr == ssa.Value(cell) {
				return nil // overwritten: the path ends here
			}
			if usesCell(in) {
				return in
			}
		}
		succs := b.Succs
		if iff, ok := b.Instrs[len(b.Instrs)-1].(*ssa.If); ok {
			c := iff.Cond
			if cur[c] {
				succs = []*ssa.BasicBlock{b.Succs[1]}
			} else if u, ok := c.(*ssa.UnOp); ok && u.Op == token.NOT && cur[u.X] {
				succs = []*ssa.BasicBlock{b.Succs[0]}
			}
		}
		for _, sblk := range succs {
			idx := -1
			for i, p := range sblk.Preds {
				if p == b {
					idx = i
				}
			}
			nxt := set{}
			for v := range cur {
				if ph, ok := v.(*ssa.Phi); ok && ph.Block() == sblk {
					continue
				}
				nxt[v] = true
			}
			for _, in := range sblk.Instrs {
				ph, ok := in.(*ssa.Phi)
				if !ok {
					break
				}
				if idx >= 0 && cur[ph.Edges[idx]] {
					nxt[ph] = true
				}
			}
			if old, seen := state[sblk]; seen {
				// meet: intersection
				changed := false
				for v := range old {
					if !nxt[v] {
						delete(old, v)
						changed = true
					}
				}
				if changed {
					work = append(work, sblk)
				}
			} else {
				state[sblk] = nxt
				work = append(work, sblk)
			}
		}
		return nil
	}
	startIdx := 0
	for i, in := range start.Block().Instrs {
		if in == ssa.Instruction(start) {
			startIdx = i + 1
		}
	}
	if bad := walk(start.Block(), startIdx, set{okV: true}); bad != nil {
		return bad
	}
	for len(work) > 0 {
		b := work[len(work)-1]
		work = work[:len(work)-1]
		cur := set{}
		for v := range state[b] {
			cur[v] = true
		}
		first := 0
		for first < len(b.Instrs) {
			if _, ok := b.Instrs[first].(*ssa.Phi); !ok {
				break
			}
			first++
		}
		if bad := walk(b, first, cur); bad != nil {
			return bad
		}
	}
	return nil
}

// pairedPhiChecked: the environment flows into a phi together with its flag (same block, same incoming edges); every
// use of the environment phi must then be under a true test of the flag phi (e.g. `for ok { ... env, ok = env.Unify(...) }`)
func pairedPhiChecked(envPhi *ssa.Phi, envV, okV ssa.Value, depth int) bool {
	return pairedPhiCheckedSeen(envPhi, envV, okV, map[*ssa.Phi]bool{})
}

func pairedPhiCheckedSeen(envPhi *ssa.Phi, envV, okV ssa.Value, seen map[*ssa.Phi]bool) bool {
	if seen[envPhi] {
		return true // already being checked (a cycle through the loop)
	}
	seen[envPhi] = true
	var okPhi *ssa.Phi
	for _, in := range envPhi.Block().Instrs {
		p, ok := in.(*ssa.Phi)
		if !ok {
			break
		}
		match := true
		for i, e := range envPhi.Edges {
			if e == envV && p.Edges[i] != okV {
				match = false
			}
		}
		if match && p != envPhi && types.Identical(p.Type(), okV.Type()) {
			okPhi = p
			break
		}
	}
	if okPhi == nil || envPhi.Referrers() == nil {
		return false
	}
	for _, use := range *envPhi.Referrers() {
		if _, isDbg := use.(*ssa.DebugRef); isDbg {
			continue
		}
		if p2, isPhi := use.(*ssa.Phi); isPhi {
			if pairedPhiCheckedSeen(p2, envPhi, okPhi, seen) {
				continue
			}
			return false
		}
		if !dominatedByTrue(okPhi, use.Block()) {
			return false
		}
	}
	return true
}

// dominatedByTrue: block b is only reachable through the true edge of a branch on cond (or on a phi/negation-free copy of it)
func dominatedByTrue(cond ssa.Value, b *ssa.BasicBlock) bool {
	if cond.Referrers() == nil {
		return false
	}
	for _, r := range *cond.Referrers() {
		switch x := r.(type) {
		case *ssa.If:
			t := x.Block().Succs[0]
			if t == b || (t.Dominates(b) && len(t.Preds) == 1) {
				return true
			}
		case *ssa.UnOp:
			if x.Op == token.NOT && x.Referrers() != nil {
				for _, rr := range *x.Referrers() {
					if iff, ok := rr.(*ssa.If); ok {
						f := iff.Block().Succs[1]
						if f == b || (f.Dominates(b) && len(f.Preds) == 1) {
							return true
						}
					}
				}
			}
		}
	}
	return false
}

// ---------------------------------------------------------------- a destination of its own per iteration (C12, C15)
//   //@ func F / fresh-per-iteration callee argIndex allocator
// Every call of `callee` that F makes inside a loop passes, as argument argIndex, a value derived from a call of
// `allocator` made in the same iteration (a block of the same innermost loop): what one iteration writes through it
// cannot be storage that an earlier iteration has already handed out.

func init() { structuralChecks = append(structuralChecks, checkFreshPerIteration) }

func checkFreshPerIteration(P *Program, prop string) []StructResult {
	var out []StructResult
	for _, key := range P.FuncOrd {
		d := P.Funcs[key]
		if !hasProp(d.Props(), prop) {
			continue
		}
		for _, c := range d.Get("fresh-per-iteration") {
			f := strings.Fields(c.Text)
			res := StructResult{Name: key + ":fresh-per-iteration:" + strings.Join(f, ":"), OK: true}
			fn := P.fnByKey[key]
			if len(f) != 3 || fn == nil {
				res.OK, res.Detail = false, "expected: fresh-per-iteration callee argIndex allocator"
				out = append(out, res)
				continue
			}
			argIdx, _ := strconv.Atoi(f[1])
			site := 0
			if j := strings.LastIndex(f[0], "#"); j > 0 {
				site, _ = strconv.Atoi(f[0][j+1:])
				f[0] = f[0][:j]
			}
			loops := findLoops(fn)
			innermost := func(b *ssa.BasicBlock) *loopInfo {
				var best *loopInfo
				for _, li := range loops {
					if li.body[b] && (best == nil || len(li.body) < len(best.body)) {
						best = li
					}
				}
				return best
			}
			calleeName := func(ci ssa.CallInstruction) string {
				if callee := ci.Common().StaticCallee(); callee != nil {
					if callee.Pkg != nil && callee.Pkg.Pkg.Path() != enginePath && callee.Pkg.Pkg.Path() != rootPath {
						return externKey(callee)
					}
					return shortKey(fnKey(callee))
				}
				return ""
			}
			n := 0
			// call sites of the callee in source order
			var poss []token.Pos
			for _, b := range fn.Blocks {
				for _, in := range b.Instrs {
					if ci, ok := in.(ssa.CallInstruction); ok && calleeName(ci) == f[0] {
						poss = append(poss, in.Pos())
					}
				}
			}
			sort.Slice(poss, func(i, j int) bool { return poss[i] < poss[j] })
			for _, b := range fn.Blocks {
				for _, in := range b.Instrs {
					ci, ok := in.(ssa.CallInstruction)
					if !ok || calleeName(ci) != f[0] {
						continue
					}
					if site > 0 && (site > len(poss) || poss[site-1] != in.Pos()) {
						continue
					}
					li := innermost(b)
					if li == nil || argIdx >= len(ci.Common().Args) {
						continue
					}
					n++
					// backward data flow from the argument to a call of the allocator
					found, inLoop := false, false
					seen := map[ssa.Value]bool{}
					var walk func(v ssa.Value, depth int)
					walk = func(v ssa.Value, depth int) {
						if v == nil || seen[v] || depth > 12 {
							return
						}
						seen[v] = true
						if call, ok := v.(*ssa.Call); ok && calleeName(call) == f[2] {
							found = true
							if li.body[call.Block()] {
								inLoop = true
							}
							return
						}
						if instr, ok := v.(ssa.Instruction); ok {
							for _, op := range instr.Operands(nil) {
								if *op != nil {
									walk(*op, depth+1)
								}
							}
						}
					}
					walk(ci.Common().Args[argIdx], 0)
					if !found || !inLoop {
						res.OK = false
						res.Detail += fmt.Sprintf("the call at %s does not get argument %d from a %s made in the same iteration; ", posOf(fn, in.Pos()), argIdx, f[2])
					}
				}
			}
			if res.OK {
				if n == 0 {
					res.OK, res.Detail = false, "no call of "+f[0]+" inside a loop"
				} else {
					res.Detail = fmt.Sprintf("%d call(s) of %s in loops, each with argument %d derived from a %s of the same iteration", n, f[0], argIdx, f[2])
				}
			}
			out = append(out, res)
		}
	}
	return out
}

// ---------------------------------------------------------------- calls a function must not make (C02)
//   //@ func F / never-calls G
// F contains no static call of G: e.g. VM.exec decides head arguments through Env.Unify only and never binds or looks
// up variables itself.

func init() { structuralChecks = append(structuralChecks, checkNeverCalls) }

func checkNeverCalls(P *Program, prop string) []StructResult {
	var out []StructResult
	for _, key := range P.FuncOrd {
		d := P.Funcs[key]
		if !hasProp(d.Props(), prop) {
			continue
		}
		for _, c := range d.Get("never-calls") {
			target := strings.TrimSpace(c.Text)
			res := StructResult{Name: key + ":never-calls:" + target, OK: true, Detail: "no call of " + target}
			fn := P.fnByKey[key]
			if fn == nil {
				res.OK, res.Detail = false, "no such function"
				out = append(out, res)
				continue
			}
			var visit func(f *ssa.Function)
			visit = func(f *ssa.Function) {
				for _, b := range f.Blocks {
					for _, in := range b.Instrs {
						if ci, ok := in.(ssa.CallInstruction); ok {
							if callee := ci.Common().StaticCallee(); callee != nil {
								k := fnKey(callee)
								if k == target || shortKey(k) == target || strings.HasSuffix(k, "."+target) {
									res.OK = false
									res.Detail = fmt.Sprintf("%s calls %s (%s)", fnKey(f), target, posOf(f, in.Pos()))
								}
							} else if target == "dynamic" && !ci.Common().IsInvoke() {
								if _, isBuiltin := ci.Common().Value.(*ssa.Builtin); !isBuiltin {
									res.OK = false
									res.Detail = fmt.Sprintf("%s calls through a function value (%s)", fnKey(f), posOf(f, in.Pos()))
								}
							}
						}
					}
				}
				for _, an := range f.AnonFuncs {
					visit(an)
				}
			}
			visit(fn)
			out = append(out, res)
		}
	}
	return out
}

// terminates: `//@ func F / terminates` - a termination fragment decided on the call graph and F's control-flow graph,
// no solver: F is loop-free (no cycle in its control-flow graph), calls nothing through a function value, and is not
// reachable from itself in the static call graph of the two packages (no direct or mutual recursion through F; calls
// through interfaces count as calls of every method of that name in the two packages). F then returns if its callees
// do: the callees that carry `terminates` themselves are decided the same way, the others are assumed to return and are
// named in the detail.
// never-asserts: `//@ func F / never-asserts T1, T2` - F (closures included) contains no type assertion or type-switch
// case to one of the named types: the function does not decide anything by the representation of a term itself
// (VM.exec leaves that to Env.Unify).
func init() { structuralChecks = append(structuralChecks, checkNeverAsserts) }

func checkNeverAsserts(P *Program, prop string) []StructResult {
	var out []StructResult
	for _, key := range P.FuncOrd {
		d := P.Funcs[key]
		if !hasProp(d.Props(), prop) {
			continue
		}
		for _, c := range d.Get("never-asserts") {
			fn := P.fnByKey[key]
			for _, name := range strings.Split(c.Text, ",") {
				name = strings.TrimSpace(name)
				res := StructResult{Name: key + ":never-asserts:" + name, OK: true, Detail: "no type assertion to " + name}
				if fn == nil {
					res.OK, res.Detail = false, "no such function"
					out = append(out, res)
					continue
				}
				var visit func(f *ssa.Function)
				visit = func(f *ssa.Function) {
					for _, b := range f.Blocks {
						for _, in := range b.Instrs {
							if ta, ok := in.(*ssa.TypeAssert); ok {
								ts := types.TypeString(ta.AssertedType, func(p *types.Package) string { return "" })
								if ts == name {
									res.OK = false
									res.Detail = fmt.Sprintf("%s tests a value for the type %s (%s)", fnKey(f), name, posOf(f, in.Pos()))
								}
							}
						}
					}
					for _, an := range f.AnonFuncs {
						visit(an)
					}
				}
				visit(fn)
				out = append(out, res)
			}
		}
	}
	return out
}

// ifacecmp (C05, no annotation): comparing two interface values with == or != panics at run time when both hold the same
// uncomparable dynamic type ("comparing uncomparable type engine.list": engine.list is a slice type and implements Term).
// Every such comparison in the two packages must have an operand that cannot hold an uncomparable value: the nil
// constant, a value that was just converted from a comparable concrete type, or an interface type none of whose
// implementations in the two packages is uncomparable. One obligation per function that contains such comparisons.
func init() { structuralChecks = append(structuralChecks, checkIfaceCmp) }

func checkIfaceCmp(P *Program, prop string) []StructResult {
	if prop != "C05" {
		return nil
	}
	// uncomparable named types of the two packages
	var uncomparable []types.Type
	for _, path := range []string{enginePath, rootPath} {
		pkg := P.Pkgs[path]
		if pkg == nil {
			continue
		}
		for _, m := range pkg.Members {
			if t, ok := m.(*ssa.Type); ok {
				if !types.Comparable(t.Type()) {
					uncomparable = append(uncomparable, t.Type())
				}
			}
		}
	}
	mayHoldUncomparable := func(it types.Type) bool {
		i, ok := it.Underlying().(*types.Interface)
		if !ok {
			return false
		}
		for _, u := range uncomparable {
			if types.Implements(u, i) {
				return true
			}
		}
		return false
	}
	safeOperand := func(v ssa.Value) bool {
		switch x := v.(type) {
		case *ssa.Const:
			return true
		case *ssa.MakeInterface:
			return types.Comparable(x.X.Type())
		case *ssa.Call:
			// id(t): the comparable identity of a term
			if c := x.Common().StaticCallee(); c != nil && c.Name() == "id" {
				return true
			}
		}
		return !mayHoldUncomparable(v.Type())
	}
	var out []StructResult
	for _, fn := range P.allFuncs {
		root := fn
		for root.Parent() != nil {
			root = root.Parent()
		}
		if root.Pkg == nil || (root.Pkg.Pkg.Path() != enginePath && root.Pkg.Pkg.Path() != rootPath) || fn.Synthetic != "" {
			continue
		}
		var bad []string
		n := 0
		for _, b := range fn.Blocks {
			for _, in := range b.Instrs {
				bo, ok := in.(*ssa.BinOp)
				if !ok || (bo.Op != token.EQL && bo.Op != token.NEQ) {
					continue
				}
				if _, isI := bo.X.Type().Underlying().(*types.Interface); !isI {
					continue
				}
				if _, isI := bo.Y.Type().Underlying().(*types.Interface); !isI {
					continue
				}
				n++
				if !safeOperand(bo.X) && !safeOperand(bo.Y) && !excludedByTypeTest(bo.X, b, uncomparable) && !excludedByTypeTest(bo.Y, b, uncomparable) {
					bad = append(bad, posOf(fn, bo.Pos()))
				}
			}
		}
		if n == 0 {
			continue
		}
		res := StructResult{Name: fnKey(fn) + ":ifacecmp", OK: len(bad) == 0, Detail: fmt.Sprintf("%d interface comparison(s), each with an operand that cannot hold an uncomparable value", n)}
		if len(bad) > 0 {
			res.Detail = "both operands may hold a value of an uncomparable type (run-time panic): " + strings.Join(bad, ", ")
		}
		out = append(out, res)
	}
	sort.Slice(out, func(i, j int) bool { return out[i].Name < out[j].Name })
	return out
}

// excludedByTypeTest: the block is only reached through the false edge of a test `v.(T)` (a case of a type switch that
// did not match) where every uncomparable type that v's interface type admits would have matched T; so v holds a
// comparable value there.
func excludedByTypeTest(v ssa.Value, at *ssa.BasicBlock, uncomparable []types.Type) bool {
	if v.Referrers() == nil {
		return false
	}
	vi, ok := v.Type().Underlying().(*types.Interface)
	if !ok {
		return false
	}
	for _, r := range *v.Referrers() {
		ta, ok := r.(*ssa.TypeAssert)
		if !ok || !ta.CommaOk || ta.X != v || ta.Referrers() == nil {
			continue
		}
		covers := true
		for _, u := range uncomparable {
			if !types.Implements(u, vi) {
				continue
			}
			if ti, isI := ta.AssertedType.Underlying().(*types.Interface); isI {
				if !types.Implements(u, ti) {
					covers = false
				}
			} else if !types.Identical(u, ta.AssertedType) {
				covers = false
			}
		}
		if !covers {
			continue
		}
		for _, er := range *ta.Referrers() {
			ex, ok := er.(*ssa.Extract)
			if !ok || ex.Index != 1 || ex.Referrers() == nil {
				continue
			}
			for _, ir := range *ex.Referrers() {
				br, ok := ir.(*ssa.If)
				if !ok || br.Cond != ssa.Value(ex) {
					continue
				}
				no := br.Block().Succs[1]
				if len(no.Preds) == 1 && no.Dominates(at) {
					return true
				}
			}
		}
	}
	return false
}

// every-iteration: `//@ func F / every-iteration <n> mapupdate|call:<name> [or …]` - every path once round loop n (from its
// header back to its header) passes an instruction of one of the named kinds: a map update, or a call of <name>
// (`append` for the built-in). Decided on the control-flow graph: with the blocks that contain such an instruction taken
// out of the loop body, no back edge of the loop may still be reachable from the header. This is how "every predicate of a
// loaded text either extends a multifile predicate or becomes the definition" is pinned for the commit loop of
// VM.Compile, whose loop variables cannot be named on the back edges of a range over a map.
func init() { structuralChecks = append(structuralChecks, checkEveryIteration) }

func checkEveryIteration(P *Program, prop string) []StructResult {
	var out []StructResult
	for _, key := range P.FuncOrd {
		d := P.Funcs[key]
		if !hasProp(d.Props(), prop) {
			continue
		}
		for _, c := range d.Get("every-iteration") {
			f := strings.Fields(c.Text)
			res := StructResult{Name: key + ":every-iteration:" + strings.Join(f, "-"), OK: true}
			fn := P.fnByKey[key]
			if fn == nil || len(f) < 2 {
				res.OK, res.Detail = false, "no such function, or clause malformed"
				out = append(out, res)
				continue
			}
			n, _ := strconv.Atoi(f[0])
			var kinds []string
			for _, k := range f[1:] {
				if k != "or" {
					kinds = append(kinds, k)
				}
			}
			matches := func(in ssa.Instruction) bool {
				for _, k := range kinds {
					switch {
					case k == "mapupdate":
						if _, ok := in.(*ssa.MapUpdate); ok {
							return true
						}
					case strings.HasPrefix(k, "call:"):
						if ci, ok := in.(ssa.CallInstruction); ok {
							want := strings.TrimPrefix(k, "call:")
							if bi, ok := ci.Common().Value.(*ssa.Builtin); ok && bi.Name() == want {
								return true
							}
							if callee := ci.Common().StaticCallee(); callee != nil && (fnKey(callee) == want || shortKey(fnKey(callee)) == want || strings.HasSuffix(fnKey(callee), "."+want)) {
								return true
							}
						}
					}
				}
				return false
			}
			var li *loopInfo
			for _, l := range findLoops(fn) {
				if l.ordinal == n {
					li = l
				}
			}
			if li == nil {
				res.OK, res.Detail = false, fmt.Sprintf("the function has no loop %d", n)
				out = append(out, res)
				continue
			}
			blocked := map[*ssa.BasicBlock]bool{}
			for b := range li.body {
				for _, in := range b.Instrs {
					if matches(in) {
						blocked[b] = true
					}
				}
			}
			// search from the header through unblocked body blocks; reaching the header again is a path without the instruction
			seen := map[*ssa.BasicBlock]bool{}
			var bad *ssa.BasicBlock
			var dfs func(b *ssa.BasicBlock)
			dfs = func(b *ssa.BasicBlock) {
				if bad != nil || seen[b] || blocked[b] || !li.body[b] {
					return
				}
				seen[b] = true
				for _, s := range b.Succs {
					if s == li.header {
						bad = b
						return
					}
					dfs(s)
				}
			}
			if blocked[li.header] {
				res.Detail = "the loop header itself contains the instruction"
			} else {
				dfs(li.header)
				if bad != nil {
					res.OK = false
					res.Detail = fmt.Sprintf("an iteration of loop %d can go round again without %s (back edge from the block at %s)", n, strings.Join(kinds, " or "), posOf(fn, blockPos(bad)))
				} else {
					res.Detail = fmt.Sprintf("every path round loop %d passes %s", n, strings.Join(kinds, " or "))
				}
			}
			out = append(out, res)
		}
	}
	return out
}

func init() { structuralChecks = append(structuralChecks, checkTerminates) }

func checkTerminates(P *Program, prop string) []StructResult {
	var out []StructResult
	inPkgs := func(f *ssa.Function) bool {
		return f.Pkg != nil && (f.Pkg.Pkg.Path() == enginePath || f.Pkg.Pkg.Path() == rootPath)
	}
	hasLoop := func(f *ssa.Function) bool {
		state := map[*ssa.BasicBlock]int{}
		var dfs func(b *ssa.BasicBlock) bool
		dfs = func(b *ssa.BasicBlock) bool {
			state[b] = 1
			for _, s := range b.Succs {
				if state[s] == 1 {
					return true
				}
				if state[s] == 0 && dfs(s) {
					return true
				}
			}
			state[b] = 2
			return false
		}
		return len(f.Blocks) > 0 && dfs(f.Blocks[0])
	}
	for _, key := range P.FuncOrd {
		d := P.Funcs[key]
		if !d.Has("terminates") || !(hasProp(d.Props(), prop) || (prop == "C05" && !d.Has("nosafety") && !d.Has("trusted"))) {
			continue
		}
		res := StructResult{Name: key + ":terminates", OK: true}
		fn := P.fnByKey[key]
		if fn == nil {
			res.OK, res.Detail = false, "no such function"
			out = append(out, res)
			continue
		}
		seen := map[*ssa.Function]bool{}
		assumed := map[string]bool{}
		var bad string
		if hasLoop(fn) {
			bad = key + " contains a loop"
		}
		var visit func(f *ssa.Function)
		visit = func(f *ssa.Function) {
			if bad != "" || seen[f] {
				return
			}
			seen[f] = true
			for _, b := range f.Blocks {
				for _, in := range b.Instrs {
					ci, ok := in.(ssa.CallInstruction)
					if !ok {
						continue
					}
					c := ci.Common()
					var callees []*ssa.Function
					if callee := c.StaticCallee(); callee != nil {
						callees = append(callees, callee)
					} else if c.IsInvoke() {
						callees = methodsNamed(P, c.Method.Name(), len(c.Args))
					} else if _, isBuiltin := c.Value.(*ssa.Builtin); !isBuiltin && f == fn {
						bad = fmt.Sprintf("%s calls through a function value (%s)", fnKey(f), posOf(f, in.Pos()))
						return
					}
					for _, callee := range callees {
						if callee == fn {
							bad = fmt.Sprintf("%s calls %s again: recursion through %s (%s)", fnKey(f), key, key, posOf(f, in.Pos()))
							return
						}
						if !inPkgs(callee) {
							continue
						}
						if cd, ok := P.Funcs[fnKey(callee)]; !ok || !cd.Has("terminates") {
							if f == fn {
								assumed[shortKey(fnKey(callee))] = true
							}
						}
						visit(callee)
						if bad != "" {
							return
						}
					}
				}
			}
		}
		visit(fn)
		if bad != "" {
			res.OK, res.Detail = false, bad
		} else {
			var ex []string
			for e := range assumed {
				ex = append(ex, e)
			}
			sort.Strings(ex)
			res.Detail = fmt.Sprintf("loop-free, not reachable from itself (%d functions below it); callees assumed to return: %s", len(seen)-1, strings.Join(ex, ", "))
		}
		out = append(out, res)
	}
	return out
}

// hasCtxParam: the function, or a function it is nested in, has a context.Context parameter
func hasCtxParam(fn *ssa.Function) bool {
	for f := fn; f != nil; f = f.Parent() {
		for _, p := range f.Params {
			if isCtxType(p.Type()) {
				return true
			}
		}
	}
	return false
}

func nonDebugRefs(v ssa.Value) []ssa.Instruction {
	var out []ssa.Instruction
	if v.Referrers() == nil {
		return nil
	}
	for _, r := range *v.Referrers() {
		if _, ok := r.(*ssa.DebugRef); !ok {
			out = append(out, r)
		}
	}
	return out
}

// writesThroughParam: does fn (or a function it passes the parameter on to) store into memory reached through its
// idx-th parameter (receiver included)? Summaries are computed once, to a fixpoint over the call graph.
var writeSummaries map[*ssa.Function]map[int]bool

func writesThroughParam(P *Program, fn *ssa.Function, idx int) bool {
	if writeSummaries == nil {
		writeSummaries = map[*ssa.Function]map[int]bool{}
		fromParam := func(v ssa.Value, p *ssa.Parameter) bool {
			for depth := 0; depth < 10 && v != nil; depth++ {
				switch x := v.(type) {
				case *ssa.Parameter:
					return x == p
				case *ssa.FieldAddr:
					v = x.X
				case *ssa.IndexAddr:
					v = x.X
				case *ssa.UnOp:
					if x.Op != token.MUL {
						return false
					}
					v = x.X
				case *ssa.Slice:
					v = x.X
				case *ssa.ChangeType:
					v = x.X
				default:
					return false
				}
			}
			return false
		}
		// functions declared not to count as writers through their parameters (with the reason, in the contract file):
		//   //@ global write-through-exempt <function> <why>
		exempt := map[string]bool{}
		for _, d := range P.Decls {
			if d.Kind == "global" && d.Name == "write-through-exempt" {
				if f := strings.Fields(d.Attr); len(f) > 0 {
					exempt[f[0]] = true
				}
			}
		}
		for changed := true; changed; {
			changed = false
			for _, f := range P.allFuncs {
				if exempt[fnKey(f)] || exempt[shortKey(fnKey(f))] {
					continue
				}
				for i, p := range f.Params {
					if writeSummaries[f][i] {
						continue
					}
					w := false
					for _, b := range f.Blocks {
						for _, in := range b.Instrs {
							switch x := in.(type) {
							case *ssa.Store:
								if fromParam(x.Addr, p) {
									w = true
								}
							case *ssa.MapUpdate:
								if fromParam(x.Map, p) {
									w = true
								}
							case ssa.CallInstruction:
								c := x.Common()
								if bi, ok := c.Value.(*ssa.Builtin); ok && (bi.Name() == "delete" || bi.Name() == "clear" || bi.Name() == "copy") && len(c.Args) > 0 && fromParam(c.Args[0], p) {
									w = true
								}
								if callee := c.StaticCallee(); callee != nil && len(callee.Blocks) > 0 {
									for ai, a := range c.Args {
										if writeSummaries[callee][ai] && fromParam(a, p) {
											w = true
										}
									}
								} else if c.IsInvoke() {
									for _, cand := range methodsNamed(P, c.Method.Name(), len(c.Args)) {
										for ai, a := range c.Args {
											if writeSummaries[cand][ai+1] && fromParam(a, p) {
												w = true
											}
										}
									}
								}
							}
						}
					}
					if w {
						if writeSummaries[f] == nil {
							writeSummaries[f] = map[int]bool{}
						}
						writeSummaries[f][i] = true
						changed = true
					}
				}
			}
		}
	}
	return writeSummaries[fn][idx]
}

// localCellsOf: the local cells an address expression may denote: the Alloc itself, or the Allocs whose address was
// stored into the cell the address is loaded from
func localCellsOf(v ssa.Value) []*ssa.Alloc {
	switch x := v.(type) {
	case *ssa.Alloc:
		return []*ssa.Alloc{x}
	case *ssa.UnOp:
		if x.Op != token.MUL {
			return nil
		}
		outer, ok := x.X.(*ssa.Alloc)
		if !ok || outer.Referrers() == nil {
			return nil
		}
		var out []*ssa.Alloc
		for _, r := range *outer.Referrers() {
			if st, ok := r.(*ssa.Store); ok && st.Addr == ssa.Value(outer) {
				if a, ok := st.Val.(*ssa.Alloc); ok {
					out = append(out, a)
				}
			}
		}
		return out
	}
	return nil
}

// methodsNamed: the methods of the two packages with that name and that many parameters (receiver not counted)
func methodsNamed(P *Program, name string, nargs int) []*ssa.Function {
	var out []*ssa.Function
	for _, f := range P.allFuncs {
		if f.Signature.Recv() != nil && f.Name() == name && f.Signature.Params().Len() == nargs && len(f.Blocks) > 0 {
			out = append(out, f)
		}
	}
	return out
}

// ---------------------------------------------------------------- contents of tables filled by package initialisation
//   //@ table <global map> <property> key=value key=value ...
// The map the package initialiser stores into the global holds exactly these entries: a key is the *name* of the atom
// (the string the key's atom variable is initialised with by NewAtom), a value the name of a function or of a constant
// of the package. Decided on the SSA of the initialiser; together with the write-once obligation on the global (C14)
// this fixes the table for the whole run.

func init() { structuralChecks = append(structuralChecks, checkTables) }

func checkTables(P *Program, prop string) []StructResult {
	var out []StructResult
	for _, d := range P.Tables {
		f := strings.Fields(d.Attr)
		if len(f) < 2 || f[0] != prop {
			continue
		}
		res := StructResult{Name: "table:" + d.Name, OK: true}
		want := map[string]string{}
		for _, kv := range f[1:] {
			i := strings.LastIndex(kv, "=")
			if i <= 0 {
				res.OK, res.Detail = false, "bad entry "+kv
				continue
			}
			k := strings.Trim(kv[:i], "\"")
			k = strings.ReplaceAll(k, "\\\\", "\\")
			want[k] = kv[i+1:]
		}
		var g *ssa.Global
		var pkg *ssa.Package
		for _, path := range []string{enginePath, rootPath} {
			if m, ok := P.Pkgs[path].Members[d.Name].(*ssa.Global); ok {
				g, pkg = m, P.Pkgs[path]
			}
		}
		if g == nil {
			res.OK, res.Detail = false, "no such package-level variable"
			out = append(out, res)
			continue
		}
		initFn := pkg.Func("init")
		// the atom variables' names: atomX = NewAtom("...")
		atomName := map[*ssa.Global]string{}
		var mk ssa.Value
		for _, b := range initFn.Blocks {
			for _, in := range b.Instrs {
				st, ok := in.(*ssa.Store)
				if !ok {
					continue
				}
				gl, ok := st.Addr.(*ssa.Global)
				if !ok {
					continue
				}
				if gl == g {
					mk = st.Val
				}
				if call, ok := st.Val.(*ssa.Call); ok {
					if callee := call.Call.StaticCallee(); callee != nil && callee.Name() == "NewAtom" && len(call.Call.Args) == 1 {
						if c, ok := call.Call.Args[0].(*ssa.Const); ok && c.Value != nil {
							atomName[gl] = constant.StringVal(c.Value)
						}
					}
				}
			}
		}
		if mk == nil {
			res.OK, res.Detail = false, "the initialiser does not store a map into it"
			out = append(out, res)
			continue
		}
		got := map[string]string{}
		var bad []string
		for _, b := range initFn.Blocks {
			for _, in := range b.Instrs {
				mu, ok := in.(*ssa.MapUpdate)
				if !ok || mu.Map != mk {
					continue
				}
				key := "?"
				if u, ok := mu.Key.(*ssa.UnOp); ok && u.Op == token.MUL {
					if gl, ok := u.X.(*ssa.Global); ok {
						if n, ok := atomName[gl]; ok {
							key = n
						} else {
							key = "?" + gl.Name()
						}
					}
				}
				val := "?"
				v := mu.Value
				for {
					if ct, ok := v.(*ssa.ChangeType); ok {
						v = ct.X
						continue
					}
					if mi, ok := v.(*ssa.MakeInterface); ok {
						v = mi.X
						continue
					}
					break
				}
				switch x := v.(type) {
				case *ssa.Function:
					val = x.Name()
				case *ssa.Const:
					// a named constant of the package with that value and type
					val = x.Value.ExactString()
					for _, n := range pkg.Pkg.Scope().Names() {
						if c, ok := pkg.Pkg.Scope().Lookup(n).(*types.Const); ok && types.Identical(c.Type(), x.Type()) && constant.Compare(c.Val(), token.EQL, x.Value) {
							if w, ok := want[key]; ok && w == n {
								val = n
							} else if val == x.Value.ExactString() {
								val = n
							}
						}
					}
				}
				if _, dup := got[key]; dup {
					bad = append(bad, "two entries for "+key)
				}
				got[key] = val
			}
		}
		for k, w := range want {
			if gv, ok := got[k]; !ok {
				bad = append(bad, fmt.Sprintf("no entry for %q", k))
			} else if gv != w {
				bad = append(bad, fmt.Sprintf("%q is %s, not %s", k, gv, w))
			}
		}
		for k, gv := range got {
			if _, ok := want[k]; !ok {
				bad = append(bad, fmt.Sprintf("unexpected entry %q = %s", k, gv))
			}
		}
		if len(bad) > 0 {
			sort.Strings(bad)
			res.OK, res.Detail = false, strings.Join(bad, "; ")
		} else if res.OK {
			res.Detail = fmt.Sprintf("%d entries, as declared", len(got))
		}
		out = append(out, res)
	}
	return out
}
