package main

import (
	"fmt"
	"go/token"
	"go/types"
	"strings"

	"golang.org/x/tools/go/ssa"
)

type StructResult struct {
	Name   string
	OK     bool
	Detail string
}

// runStructural: frame/ownership obligations decided on the SSA itself (DESIGN 3.6)
func runStructural(P *Program, prop string) []StructResult {
	var out []StructResult
	for _, f := range structuralChecks {
		out = append(out, f(P, prop)...)
	}
	return out
}

var structuralChecks []func(P *Program, prop string) []StructResult

func solveLemmas(P *Program, prop string, budget, seed int) []*Result { return nil }

// frozen: `frozen a, b, c` on a function's contract: the named parameters are captured by closures (as cells) and must
// never be assigned after the function's entry, neither by the function nor by any of its closures: what a closure
// reads later is the value the function was called with.
func init() {
	structuralChecks = append(structuralChecks, checkFrozen)
}

func checkFrozen(P *Program, prop string) []StructResult {
	var out []StructResult
	for _, key := range P.FuncOrd {
		d := P.Funcs[key]
		if !hasProp(d.Props(), prop) {
			continue
		}
		for _, c := range d.Get("frozen") {
			fn := P.fnByKey[key]
			if fn == nil {
				continue
			}
			for _, name := range strings.Split(c.Text, ",") {
				name = strings.TrimSpace(name)
				res := StructResult{Name: key + ":frozen:" + name, OK: true}
				// the parameter and the cell it is spilled into
				var param *ssa.Parameter
				for _, p := range fn.Params {
					if p.Name() == name {
						param = p
					}
				}
				if param == nil {
					res.OK, res.Detail = false, "no such parameter"
					out = append(out, res)
					continue
				}
				var cell *ssa.Alloc
				if param.Referrers() != nil {
					for _, r := range *param.Referrers() {
						if st, ok := r.(*ssa.Store); ok && st.Val == param {
							if a, ok := st.Addr.(*ssa.Alloc); ok {
								cell = a
							}
						}
					}
				}
				if cell == nil {
					res.Detail = "parameter is not captured by reference (never reassigned by construction)"
					out = append(out, res)
					continue
				}
				n := countStores(cell, map[ssa.Value]bool{})
				if n != 1 {
					res.OK = false
					res.Detail = fmt.Sprintf("the captured variable %s is assigned %d time(s) besides its initialisation (in %s or one of its closures)", name, n-1, key)
				} else {
					res.Detail = "one store (the parameter spill), no assignment in any closure"
				}
				out = append(out, res)
			}
		}
	}
	return out
}

// countStores counts stores through an address, following closure captures
func countStores(v ssa.Value, seen map[ssa.Value]bool) int {
	if seen[v] || v.Referrers() == nil {
		return 0
	}
	seen[v] = true
	n := 0
	for _, r := range *v.Referrers() {
		switch x := r.(type) {
		case *ssa.Store:
			if x.Addr == v {
				n++
			}
		case *ssa.MakeClosure:
			fn := x.Fn.(*ssa.Function)
			for i, b := range x.Bindings {
				if b == v {
					n += countStores(fn.FreeVars[i], seen)
				}
			}
		}
	}
	return n
}

// ---------------------------------------------------------------- ctxflow (C13)
// Every call of (*Promise).Force must receive a context that is data-dependent on a context.Context parameter of the
// enclosing function or of a function whose closure it is. Exceptions are declared in the contract file:
//   //@ global ctxflow-exempt <function key> <reason>

func init() { structuralChecks = append(structuralChecks, checkCtxFlow) }

func isCtxType(t types.Type) bool {
	n, ok := t.(*types.Named)
	return ok && n.Obj().Name() == "Context" && n.Obj().Pkg() != nil && n.Obj().Pkg().Path() == "context"
}

func ctxDerived(v ssa.Value, seen map[ssa.Value]bool, depth int) (bool, string) {
	if seen[v] {
		return true, ""
	}
	seen[v] = true
	if depth > 12 {
		return false, "derivation too deep"
	}
	switch x := v.(type) {
	case *ssa.Parameter:
		if isCtxType(x.Type()) {
			return true, ""
		}
		return false, "parameter " + x.Name() + " is not a context"
	case *ssa.FreeVar:
		// captured variable: find the binding in the parent's MakeClosure
		fn := x.Parent()
		idx := -1
		for i, fv := range fn.FreeVars {
			if fv == x {
				idx = i
			}
		}
		par := fn.Parent()
		if par == nil || idx < 0 {
			return false, "free variable without parent"
		}
		found := false
		for _, b := range par.Blocks {
			for _, in := range b.Instrs {
				if mc, ok := in.(*ssa.MakeClosure); ok && mc.Fn == fn {
					found = true
					if ok, why := ctxDerived(mc.Bindings[idx], seen, depth+1); !ok {
						return false, why
					}
				}
			}
		}
		if !found {
			return false, "closure creation not found"
		}
		return true, ""
	case *ssa.UnOp: // load of a cell: every store into the cell must be derived
		if x.Op != token.MUL {
			return false, "unexpected operation"
		}
		return ctxCell(x.X, seen, depth+1)
	case *ssa.Phi:
		for _, e := range x.Edges {
			if ok, why := ctxDerived(e, seen, depth+1); !ok {
				return false, why
			}
		}
		return true, ""
	case *ssa.Extract:
		return ctxDerived(x.Tuple, seen, depth+1)
	case *ssa.Call:
		if callee := x.Call.StaticCallee(); callee != nil && callee.Pkg != nil && callee.Pkg.Pkg.Path() == "context" {
			switch callee.Name() {
			case "WithCancel", "WithTimeout", "WithDeadline", "WithValue", "WithCancelCause", "WithoutCancel":
				if callee.Name() == "WithoutCancel" {
					return false, "context.WithoutCancel drops cancellation"
				}
				return ctxDerived(x.Call.Args[0], seen, depth+1)
			case "Background", "TODO":
				return false, "context." + callee.Name() + "() is not derived from the caller's context"
			}
		}
		return false, "result of a call that is not a context constructor"
	case *ssa.ChangeInterface:
		return ctxDerived(x.X, seen, depth+1)
	case *ssa.MakeInterface:
		return ctxDerived(x.X, seen, depth+1)
	}
	return false, fmt.Sprintf("value %s (%T) is not derived from a context parameter", v.Name(), v)
}

func ctxCell(addr ssa.Value, seen map[ssa.Value]bool, depth int) (bool, string) {
	switch a := addr.(type) {
	case *ssa.Alloc, *ssa.FreeVar:
		// all stores into the cell (here and in closures sharing it)
		root := addr
		if fv, ok := a.(*ssa.FreeVar); ok {
			// resolve to the binding in the parent
			fn := fv.Parent()
			idx := -1
			for i, f := range fn.FreeVars {
				if f == fv {
					idx = i
				}
			}
			par := fn.Parent()
			if par == nil || idx < 0 {
				return false, "free variable without parent"
			}
			for _, b := range par.Blocks {
				for _, in := range b.Instrs {
					if mc, ok := in.(*ssa.MakeClosure); ok && mc.Fn == fn {
						return ctxCell(mc.Bindings[idx], seen, depth+1)
					}
				}
			}
			return false, "closure creation not found"
		}
		stores := collectStores(root, map[ssa.Value]bool{})
		if len(stores) == 0 {
			return false, "cell is never assigned"
		}
		for _, s := range stores {
			if ok, why := ctxDerived(s.Val, seen, depth+1); !ok {
				return false, why
			}
		}
		return true, ""
	}
	return false, "context loaded from memory that is not a local variable"
}

func collectStores(v ssa.Value, seen map[ssa.Value]bool) []*ssa.Store {
	if seen[v] || v.Referrers() == nil {
		return nil
	}
	seen[v] = true
	var out []*ssa.Store
	for _, r := range *v.Referrers() {
		switch x := r.(type) {
		case *ssa.Store:
			if x.Addr == v {
				out = append(out, x)
			}
		case *ssa.MakeClosure:
			fn := x.Fn.(*ssa.Function)
			for i, b := range x.Bindings {
				if b == v {
					out = append(out, collectStores(fn.FreeVars[i], seen)...)
				}
			}
		}
	}
	return out
}

func checkCtxFlow(P *Program, prop string) []StructResult {
	if prop != "C13" {
		return nil
	}
	exempt := map[string]string{}
	for _, d := range P.Decls {
		if d.Kind == "global" && d.Name == "ctxflow-exempt" {
			f := strings.Fields(d.Attr)
			if len(f) > 0 {
				exempt[f[0]] = strings.TrimSpace(strings.TrimPrefix(d.Attr, f[0]))
			}
		}
	}
	var out []StructResult
	count := map[string]int{}
	for _, fn := range P.allFuncs {
		for _, b := range fn.Blocks {
			for _, in := range b.Instrs {
				call, ok := in.(ssa.CallInstruction)
				if !ok {
					continue
				}
				callee := call.Common().StaticCallee()
				if callee == nil || fnKey(callee) != "engine.(*Promise).Force" {
					continue
				}
				key := fnKey(fn)
				count[key]++
				name := fmt.Sprintf("%s:ctxflow:%d", key, count[key])
				if why, ok := exempt[key]; ok {
					out = append(out, StructResult{Name: name, OK: true, Detail: "exempt: " + why})
					continue
				}
				ok2, why := ctxDerived(call.Common().Args[1], map[ssa.Value]bool{}, 0)
				res := StructResult{Name: name, OK: ok2, Detail: why}
				if ok2 {
					res.Detail = "the context argument derives from a context parameter"
				} else {
					res.Detail = "the context passed to Force is not derived from the caller's context: " + why + " (" + posOf(fn, in.Pos()) + ")"
				}
				out = append(out, res)
			}
		}
	}
	return out
}
