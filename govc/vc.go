package main

// VC: one verification-condition context per function under contract. Holds SMT declarations,
// definitions, assumptions and obligations. See DESIGN.md section 3.3 and Appendix C.

import (
	"fmt"
	"regexp"
	"go/types"
	"math/big"
	"sort"
	"strings"
)

const (
	modeBV  = 0
	modeInt = 1
)

type Obligation struct {
	Func    string // function under contract
	Class   string // post pre@call idx nil div0 ...
	Label   string
	Props   []string
	Guard   string
	Formula string
	Clause  string   // human-readable clause text
	Inputs  []string // SMT terms worth printing from a model
	NDecls  int      // number of decl lines visible to this obligation (prefix of vc.lines)
	NAssume int
	Expect  string // "" = must be unsat; "sat" = canary (must be refuted)
	FP      bool   // cone contains floating point
	Pos     string
	AltGuards []string // guards whose disjunction is Guard (one per return): lets the solver work path by path
}

func (o *Obligation) Name() string {
	n := o.Func + ":" + o.Class
	if o.Label != "" {
		n += ":" + o.Label
	}
	return n
}

type line struct {
	s      string
	assume bool
}

type VC struct {
	P        *Program
	mode     int
	lines    []line // declarations, definitions and assumptions in emission order
	obls     []*Obligation
	declared map[string]bool
	n        int
	classes  map[string]types.Type // heap classes known (class name -> value type)
	classOrd []string
	newClass bool
	usesFP   bool
	notes    []string // abstractions applied (unsupported instruction havocs etc.)
	assumed  map[string]bool
	strlits  map[string]string
	typeIDs  map[string]int
	fnIDs    map[string]int
	fn       string
	curProps []string
	unsupported []string
	inlined  map[string]bool
	usedExtern map[string]bool
	useAxiom   map[string]bool
	usedTrusted map[string]bool
	usedOther map[string]bool
	usedAxioms map[string]bool
	loopsNoInv int
	specErrors []string
	prevHeap   map[string]string
	linfo      []lineInfo
	localCells []localCell
	ixNames    map[string]string
	guardCovered map[string]bool
	errGlobals []string
	passedToCurrentCall func(localCell) bool
	boxFacts   map[string]bool
}

func NewVC(p *Program, mode int, fn string, seedClasses map[string]types.Type) *VC {
	vc := &VC{P: p, mode: mode, declared: map[string]bool{}, classes: map[string]types.Type{}, assumed: map[string]bool{},
		strlits: map[string]string{}, fn: fn, inlined: map[string]bool{}, usedExtern: map[string]bool{}, usedTrusted: map[string]bool{}, usedOther: map[string]bool{}, usedAxioms: map[string]bool{}}
	for k, v := range seedClasses {
		vc.classes[k] = v
	}
	for k := range vc.classes {
		vc.classOrd = append(vc.classOrd, k)
	}
	sort.Strings(vc.classOrd)
	vc.prelude()
	return vc
}

func (vc *VC) emit(s string)   { vc.lines = append(vc.lines, line{s, false}) }
func (vc *VC) assume(s string) { vc.lines = append(vc.lines, line{"(assert " + s + ")", true}) }
func (vc *VC) assumeG(g, s string) {
	if g == "true" {
		vc.assume(s)
	} else {
		vc.assume("(=> " + g + " " + s + ")")
	}
}
func (vc *VC) note(s string) {
	for _, n := range vc.notes {
		if n == s {
			return
		}
	}
	vc.notes = append(vc.notes, s)
}

func (vc *VC) fresh(hint string) string {
	vc.n++
	return fmt.Sprintf("|%s!%d|", strings.Trim(hint, "|"), vc.n)
}

func (vc *VC) declare(name, sort string) string {
	if !vc.declared[name] {
		vc.declared[name] = true
		vc.emit(fmt.Sprintf("(declare-fun %s () %s)", name, sort))
	}
	return name
}
func (vc *VC) declareFun(name string, args []string, ret string) {
	if !vc.declared[name] {
		vc.declared[name] = true
		vc.emit(fmt.Sprintf("(declare-fun %s (%s) %s)", name, strings.Join(args, " "), ret))
	}
}
func (vc *VC) define(name, sort, body string) string {
	if vc.declared[name] {
		panic("redefinition of " + name)
	}
	vc.declared[name] = true
	vc.emit(fmt.Sprintf("(define-fun %s () %s %s)", name, sort, body))
	return name
}
func (vc *VC) freshConst(hint, sort string) string {
	return vc.declare(vc.fresh(hint), sort)
}

const sortF64 = "(_ FloatingPoint 11 53)"
const sortF32 = "(_ FloatingPoint 8 24)"

func (vc *VC) prelude() {
	vc.emit("(declare-sort Str 0)")
	vc.emit("(declare-sort Iface 0)")
	vc.emit("(declare-fun tag (Iface) Int)")
	vc.emit("(declare-fun iface_nil () Iface)")
	vc.assume("(= (tag iface_nil) 0)")
	vc.emit("(declare-datatypes ((Slice 0)) (((mk_slice (s_arr Int) (s_off Int) (s_len Int) (s_cap Int)))))")
	vc.emit("(declare-fun base (Int) Int)")
	vc.emit("(declare-fun ea (Int Int) Int)")
	vc.emit("(declare-fun ea_arr (Int) Int)")
	vc.emit("(declare-fun ea_idx (Int) Int)")
	vc.emit("(declare-fun akind (Int) Int)")
	vc.assume("(= (base 0) 0)")
	vc.emit("(declare-fun slen (Str) Int)")
	vc.assume("(forall ((s Str)) (! (>= (slen s) 0) :pattern ((slen s))))")
	// truncated division / floor division helpers (mathematical integers)
	vc.emit("(define-fun tdiv ((x Int) (y Int)) Int (ite (>= x 0) (ite (> y 0) (div x y) (- (div x (- y)))) (ite (> y 0) (- (div (- x) y)) (div (- x) (- y)))))")
	vc.emit("(define-fun trem ((x Int) (y Int)) Int (- x (* y (tdiv x y))))")
	vc.emit("(define-fun fdiv ((x Int) (y Int)) Int (ite (> y 0) (div x y) (div (- x) (- y))))")
	vc.emit("(define-fun fmod ((x Int) (y Int)) Int (- x (* y (fdiv x y))))")
	for _, w := range []int{8, 16, 32, 64} {
		p := new(big.Int).Lsh(big.NewInt(1), uint(w))
		h := new(big.Int).Lsh(big.NewInt(1), uint(w-1))
		vc.emit(fmt.Sprintf("(define-fun wrapS%d ((x Int)) Int (ite (and (<= (- %s) x) (< x %s)) x (- (mod (+ x %s) %s) %s)))", w, h, h, h, p, h))
		vc.emit(fmt.Sprintf("(define-fun wrapU%d ((x Int)) Int (ite (and (<= 0 x) (< x %s)) x (mod x %s)))", w, p, p))
		vc.emit(fmt.Sprintf("(define-fun inS%d ((x Int)) Bool (and (<= (- %s) x) (< x %s)))", w, h, h))
		vc.emit(fmt.Sprintf("(define-fun inU%d ((x Int)) Bool (and (<= 0 x) (< x %s)))", w, p))
	}
}

// ---------------------------------------------------------------- sorts

func sanitize(s string) string {
	r := strings.NewReplacer("github.com/ichiban/prolog/engine.", "", "github.com/ichiban/prolog.", "prolog.", "/", "_", " ", "_", "*", "P", "[", "L", "]", "R", "(", "_", ")", "_", ",", "_", "{", "_", "}", "_", ";", "_", "\"", "_", "|", "_")
	return r.Replace(s)
}

func intInfo(t types.Type) (w int, signed bool, ok bool) {
	b, isb := t.Underlying().(*types.Basic)
	if !isb {
		return 0, false, false
	}
	switch b.Kind() {
	case types.Int, types.Int64, types.UntypedInt, types.UntypedRune:
		return 64, true, true
	case types.Int8:
		return 8, true, true
	case types.Int16:
		return 16, true, true
	case types.Int32:
		return 32, true, true
	case types.Uint, types.Uint64, types.Uintptr:
		return 64, false, true
	case types.Uint8:
		return 8, false, true
	case types.Uint16:
		return 16, false, true
	case types.Uint32:
		return 32, false, true
	}
	return 0, false, false
}

func isFloat(t types.Type) (int, bool) {
	b, ok := t.Underlying().(*types.Basic)
	if !ok {
		return 0, false
	}
	switch b.Kind() {
	case types.Float64, types.UntypedFloat:
		return 64, true
	case types.Float32:
		return 32, true
	}
	return 0, false
}

func isString(t types.Type) bool {
	b, ok := t.Underlying().(*types.Basic)
	return ok && (b.Kind() == types.String || b.Kind() == types.UntypedString)
}
func isBool(t types.Type) bool {
	b, ok := t.Underlying().(*types.Basic)
	return ok && (b.Kind() == types.Bool || b.Kind() == types.UntypedBool)
}
func isIface(t types.Type) bool {
	_, ok := t.Underlying().(*types.Interface)
	return ok
}
func isRefLike(t types.Type) bool {
	switch t.Underlying().(type) {
	case *types.Pointer, *types.Map, *types.Chan, *types.Signature:
		return true
	}
	if b, ok := t.Underlying().(*types.Basic); ok && (b.Kind() == types.UnsafePointer || b.Kind() == types.UntypedNil) {
		return true
	}
	return false
}

func (vc *VC) intSort(w int) string {
	if vc.mode == modeInt {
		return "Int"
	}
	return fmt.Sprintf("(_ BitVec %d)", w)
}

func (vc *VC) sortOf(t types.Type) string {
	if w, _, ok := intInfo(t); ok {
		return vc.intSort(w)
	}
	if w, ok := isFloat(t); ok {
		vc.usesFP = true
		if w == 32 {
			return sortF32
		}
		return sortF64
	}
	switch u := t.Underlying().(type) {
	case *types.Basic:
		switch {
		case isBool(t):
			return "Bool"
		case isString(t):
			return "Str"
		case u.Kind() == types.UnsafePointer, u.Kind() == types.UntypedNil:
			return "Int"
		}
	case *types.Pointer, *types.Map, *types.Chan, *types.Signature:
		return "Int"
	case *types.Interface:
		return "Iface"
	case *types.Slice:
		return "Slice"
	case *types.Array:
		return "(Array Int " + vc.sortOf(u.Elem()) + ")"
	case *types.Struct:
		name := "S_" + sanitize(types.TypeString(t, nil))
		if len(name) > 80 {
			name = fmt.Sprintf("S_anon%d", vc.typeID(t))
		}
		if !vc.declared[name] {
			vc.declared[name] = true
			var fs []string
			for i := 0; i < u.NumFields(); i++ {
				fs = append(fs, fmt.Sprintf("(%s %s)", vc.fieldAcc(name, u, i), vc.sortOf(u.Field(i).Type())))
			}
			if len(fs) == 0 {
				fs = append(fs, fmt.Sprintf("(|%s.$unit| Bool)", name))
			}
			vc.emit(fmt.Sprintf("(declare-datatypes ((%s 0)) (((mk_%s %s))))", name, name, strings.Join(fs, " ")))
		}
		return name
	case *types.Tuple:
		return "TUPLE"
	}
	vc.unsupported = append(vc.unsupported, "sort of "+t.String())
	return "Int"
}

func (vc *VC) fieldAcc(sname string, u *types.Struct, i int) string {
	return fmt.Sprintf("|%s.%s|", sname, u.Field(i).Name())
}

func (vc *VC) typeID(t types.Type) int {
	if vc.typeIDs == nil {
		vc.typeIDs = map[string]int{}
	}
	k := types.TypeString(t, nil)
	if id, ok := vc.typeIDs[k]; ok {
		return id
	}
	id := vc.P.TypeID(k)
	vc.typeIDs[k] = id
	return id
}

// intLit renders a Go integer constant of width w.
func (vc *VC) intLit(v *big.Int, w int) string {
	if vc.mode == modeInt {
		if v.Sign() < 0 {
			return "(- " + new(big.Int).Neg(v).String() + ")"
		}
		return v.String()
	}
	m := new(big.Int).Lsh(big.NewInt(1), uint(w))
	x := new(big.Int).Mod(v, m)
	return fmt.Sprintf("(_ bv%s %d)", x.String(), w)
}

func mathLit(v *big.Int) string {
	if v.Sign() < 0 {
		return "(- " + new(big.Int).Neg(v).String() + ")"
	}
	return v.String()
}

// zero value of a Go type
func (vc *VC) zero(t types.Type) string {
	if w, _, ok := intInfo(t); ok {
		return vc.intLit(big.NewInt(0), w)
	}
	if w, ok := isFloat(t); ok {
		if w == 32 {
			return "(_ +zero 8 24)"
		}
		return "(_ +zero 11 53)"
	}
	switch u := t.Underlying().(type) {
	case *types.Basic:
		if isBool(t) {
			return "false"
		}
		if isString(t) {
			return vc.strLit("")
		}
		return "0"
	case *types.Pointer, *types.Map, *types.Chan, *types.Signature:
		return "0"
	case *types.Interface:
		return "iface_nil"
	case *types.Slice:
		return "(mk_slice 0 0 0 0)"
	case *types.Array:
		return fmt.Sprintf("((as const %s) %s)", vc.sortOf(t), vc.zero(u.Elem()))
	case *types.Struct:
		s := vc.sortOf(t)
		if u.NumFields() == 0 {
			return "(mk_" + s + " false)"
		}
		var fs []string
		for i := 0; i < u.NumFields(); i++ {
			fs = append(fs, vc.zero(u.Field(i).Type()))
		}
		return "(mk_" + s + " " + strings.Join(fs, " ") + ")"
	}
	return "0"
}

func (vc *VC) strLit(s string) string {
	if n, ok := vc.strlits[s]; ok {
		return n
	}
	name := fmt.Sprintf("|str%d:%s|", len(vc.strlits), sanitizeLit(s))
	// all string literals are pairwise distinct
	vc.declare(name, "Str")
	vc.assume(fmt.Sprintf("(= (slen %s) %d)", name, len(s)))
	for o, on := range vc.strlits {
		_ = o
		vc.assume(fmt.Sprintf("(not (= %s %s))", name, on))
	}
	vc.strlits[s] = name
	if s == "" {
		// the empty string is the only string of length 0
		vc.assume(fmt.Sprintf("(forall ((s Str)) (! (=> (= (slen s) 0) (= s %s)) :pattern ((slen s))))", name))
	}
	return name
}

func sanitizeLit(s string) string {
	var b strings.Builder
	for _, r := range s {
		if (r >= 'a' && r <= 'z') || (r >= 'A' && r <= 'Z') || (r >= '0' && r <= '9') || r == '_' || r == '-' || r == '+' || r == '.' {
			b.WriteRune(r)
		} else {
			fmt.Fprintf(&b, "$%x", r)
		}
		if b.Len() > 40 {
			break
		}
	}
	return b.String()
}

// ---------------------------------------------------------------- interfaces

func (vc *VC) boxFns(t types.Type) (box, unbox string, id int) {
	k := sanitize(types.TypeString(t, nil))
	box, unbox = "|box_"+k+"|", "|unbox_"+k+"|"
	id = vc.typeID(t)
	if !vc.declared[box] {
		s := vc.sortOf(t)
		vc.declareFun(box, []string{s}, "Iface")
		vc.declareFun(unbox, []string{"Iface"}, s)
	}
	return
}

// boxing is injective and tagged: instantiated on every box/unbox term when it is created (no quantifier needed);
// terms under a binder get the quantified form.
func (vc *VC) boxFact(t types.Type, kind, arg string) {
	box, unbox, id := vc.boxFns(t)
	if vc.boxFacts == nil {
		vc.boxFacts = map[string]bool{}
	}
	if strings.Contains(arg, "?") { // bound variable inside
		k := "q:" + box
		if !vc.boxFacts[k] {
			vc.boxFacts[k] = true
			s := vc.sortOf(t)
			vc.assume(fmt.Sprintf("(forall ((x %s)) (! (and (= (%s (%s x)) x) (= (tag (%s x)) %d)) :pattern ((%s x))))", s, unbox, box, box, id, box))
			vc.assume(fmt.Sprintf("(forall ((i Iface)) (! (=> (= (tag i) %d) (= (%s (%s i)) i)) :pattern ((%s i))))", id, box, unbox, unbox))
		}
		return
	}
	k := kind + ":" + box + ":" + arg
	if vc.boxFacts[k] {
		return
	}
	vc.boxFacts[k] = true
	if kind == "box" {
		vc.assume(fmt.Sprintf("(and (= (%s (%s %s)) %s) (= (tag (%s %s)) %d))", unbox, box, arg, arg, box, arg, id))
	} else {
		vc.assume(fmt.Sprintf("(=> (= (tag %s) %d) (= (%s (%s %s)) %s))", arg, id, box, unbox, arg, arg))
	}
}

func (vc *VC) box(t types.Type, v string) string {
	if isIface(t) {
		return v
	}
	b, _, _ := vc.boxFns(t)
	vc.boxFact(t, "box", v)
	return "(" + b + " " + v + ")"
}
func (vc *VC) unbox(t types.Type, v string) string {
	_, u, _ := vc.boxFns(t)
	vc.boxFact(t, "unbox", v)
	return "(" + u + " " + v + ")"
}
func (vc *VC) hasTag(t types.Type, v string) string {
	_, _, id := vc.boxFns(t)
	return fmt.Sprintf("(= (tag %s) %d)", v, id)
}

// implements predicate for assertion to interface type J
func (vc *VC) implTest(j types.Type, v string) string {
	impls, closed := vc.P.Implementers(j)
	var alts []string
	for _, t := range impls {
		alts = append(alts, fmt.Sprintf("(= (tag %s) %d)", v, vc.typeID(t)))
	}
	if closed {
		if len(alts) == 0 {
			return "false"
		}
		if len(alts) == 1 {
			return alts[0]
		}
		return "(or " + strings.Join(alts, " ") + ")"
	}
	// open world: an uninterpreted predicate over tags, true for known implementers, false for known non-implementers of the loaded packages
	pn := "|impl_" + sanitize(types.TypeString(j, nil)) + "|"
	if !vc.declared[pn] {
		vc.declareFun(pn, []string{"Int"}, "Bool")
		vc.assume("(not (" + pn + " 0))")
		for _, t := range impls {
			vc.assume(fmt.Sprintf("(%s %d)", pn, vc.typeID(t)))
		}
		for _, t := range vc.P.NonImplementers(j) {
			vc.assume(fmt.Sprintf("(not (%s %d))", pn, vc.typeID(t)))
		}
	}
	return "(" + pn + " (tag " + v + "))"
}

// static-type fact for a value of interface type
func (vc *VC) ifaceTypeFact(j types.Type, v string) string {
	impls, closed := vc.P.Implementers(j)
	if !closed || len(impls) > 12 {
		return ""
	}
	alts := []string{"(= (tag " + v + ") 0)"}
	for _, t := range impls {
		alts = append(alts, fmt.Sprintf("(= (tag %s) %d)", v, vc.typeID(t)))
	}
	return "(or " + strings.Join(alts, " ") + ")"
}

// ---------------------------------------------------------------- state / heap

type State struct {
	heap  map[string]string // class -> array term
	hw    string
	ghost map[string]string
	defers []deferred
}

type deferred struct {
	desc     string
	mutating bool
	call     interface{}
}

func (s *State) clone() *State {
	n := &State{heap: map[string]string{}, hw: s.hw, ghost: map[string]string{}}
	for k, v := range s.heap {
		n.heap[k] = v
	}
	for k, v := range s.ghost {
		n.ghost[k] = v
	}
	n.defers = append(n.defers, s.defers...)
	return n
}

func (vc *VC) className(t types.Type) string {
	k := "H_" + sanitize(types.TypeString(t, nil))
	if len(k) > 90 {
		k = fmt.Sprintf("H_anon%d", vc.typeID(t))
	}
	if _, ok := vc.classes[k]; !ok {
		vc.classes[k] = t
		vc.classOrd = append(vc.classOrd, k)
		vc.newClass = true
	}
	return k
}

func (vc *VC) classSort(t types.Type) string {
	if m, ok := t.Underlying().(*types.Map); ok {
		return "(Array Int " + vc.mapContentSort(m) + ")"
	}
	return "(Array Int " + vc.sortOf(t) + ")"
}

func (vc *VC) optSort(v types.Type) string {
	vs := vc.sortOf(v)
	name := "Opt_" + sanitize(vs)
	if !vc.declared[name] {
		vc.declared[name] = true
		vc.emit(fmt.Sprintf("(declare-datatypes ((%s 0)) (((none_%s) (some_%s (val_%s %s)))))", name, name, name, name, vs))
	}
	return name
}
func (vc *VC) mapContentSort(m *types.Map) string {
	return "(Array " + vc.sortOf(m.Key()) + " " + vc.optSort(m.Elem()) + ")"
}

func (vc *VC) initState() *State {
	st := &State{heap: map[string]string{}, ghost: map[string]string{}}
	for _, k := range vc.classOrd {
		st.heap[k] = vc.declare("|"+k+"@0|", vc.classSortByName(k))
	}
	st.hw = vc.declare("|hw@0|", "Int")
	vc.assume("(>= |hw@0| 0)")
	return st
}

func (vc *VC) classSortByName(k string) string {
	t := vc.classes[k]
	if strings.HasPrefix(k, "HM_") {
		return "(Array Int " + vc.mapContentSort(t.Underlying().(*types.Map)) + ")"
	}
	return "(Array Int " + vc.sortOf(t) + ")"
}

func (vc *VC) mapClass(t types.Type) string {
	// map objects are shared between a named map type and its underlying type (value conversions): one class per underlying type
	t = t.Underlying()
	k := "HM_" + sanitize(types.TypeString(t, nil))
	if _, ok := vc.classes[k]; !ok {
		vc.classes[k] = t
		vc.classOrd = append(vc.classOrd, k)
		vc.newClass = true
	}
	return k
}

func (vc *VC) heapOf(st *State, class string) string {
	if h, ok := st.heap[class]; ok {
		return h
	}
	// class discovered during this pass: a later pass will have it from the start
	h := vc.declare("|"+class+"@late|", vc.classSortByName(class))
	st.heap[class] = h
	return h
}

type localCell struct {
	addr  string
	typ   types.Type
	alloc interface{}
	// the spill cell of a parameter that the contract declares `frozen` (structural obligation: one store, the spill,
	// in the function and all its closures): nothing can change it, whoever holds its address
	frozen bool
}

// havocAll replaces every heap class by a fresh array. Cells of local variables whose address never leaves the
// function (escape analysis in enc.go) keep their content: unknown code cannot reach them.
func (vc *VC) havocAll(st *State, why string) {
	// a local cell whose address is an argument of the call that causes the havoc can be written by the callee
	vc.havocAllKeep(st, func(c localCell) bool {
		if c.frozen {
			return true
		}
		if vc.passedToCurrentCall != nil && vc.passedToCurrentCall(c) {
			return false
		}
		return true
	})
}

func (vc *VC) havocAllKeep(st *State, keep func(localCell) bool) {
	old := st.clone()
	for _, k := range vc.classOrd {
		st.heap[k] = vc.freshConst(k+"@hv", vc.classSortByName(k))
	}
	nhw := vc.freshConst("hw", "Int")
	vc.assume("(>= " + nhw + " " + st.hw + ")")
	st.hw = nhw
	for _, c := range vc.localCells {
		if keep(c) {
			vc.store(st, c.addr, c.typ, vc.load(old, c.addr, c.typ))
		}
	}
}

func (vc *VC) havocClass(st *State, class string) {
	old := vc.heapOf(st, class)
	st.heap[class] = vc.freshConst(class+"@hv", vc.classSortByName(class))
	if vc.prevHeap == nil {
		vc.prevHeap = map[string]string{}
	}
	vc.prevHeap[st.heap[class]] = old
}

// field address function
func (vc *VC) fieldAddrFn(st types.Type, u *types.Struct, i int) string {
	name := "|fa_" + sanitize(types.TypeString(st, nil)) + "." + u.Field(i).Name() + "|"
	if len(name) > 100 {
		name = fmt.Sprintf("|fa_anon%d.%s|", vc.typeID(st), u.Field(i).Name())
	}
	if !vc.declared[name] {
		vc.declareFun(name, []string{"Int"}, "Int")
		inv := "|inv" + name[1:]
		vc.declareFun(inv, []string{"Int"}, "Int")
	}
	return name
}

func (vc *VC) fieldAddr(stT types.Type, i int, base string) string {
	u := stT.Underlying().(*types.Struct)
	name := vc.fieldAddrFn(stT, u, i)
	t := "(" + name + " " + base + ")"
	if vc.boxFacts == nil {
		vc.boxFacts = map[string]bool{}
	}
	inv := "|inv" + name[1:]
	kind := 1000 + vc.P.TypeID("field:"+name)
	if strings.Contains(base, "?") { // under a binder: quantified axiom
		if !vc.boxFacts["q:"+name] {
			vc.boxFacts["q:"+name] = true
			vc.assume(fmt.Sprintf("(forall ((r Int)) (! (and (= (%s (%s r)) r) (= (base (%s r)) (base r)) (= (akind (%s r)) %d) (not (= (%s r) 0))) :pattern ((%s r))))", inv, name, name, name, kind, name, name))
		}
		return t
	}
	if !vc.boxFacts[t] {
		vc.boxFacts[t] = true
		vc.assume(fmt.Sprintf("(and (= (%s %s) %s) (= (base %s) (base %s)) (= (akind %s) %d) (not (= %s 0)))", inv, t, base, t, base, t, kind, t))
	}
	return t
}

// ea: element address; the injectivity facts are instantiated on the term unless it is under a binder
func (vc *VC) ea(a, i string) string {
	t := "(ea " + a + " " + i + ")"
	if vc.boxFacts == nil {
		vc.boxFacts = map[string]bool{}
	}
	if strings.Contains(t, "?") {
		vc.needEAQuant()
		return t
	}
	if !vc.boxFacts[t] {
		vc.boxFacts[t] = true
		vc.assume(fmt.Sprintf("(and (= (ea_arr %s) %s) (= (ea_idx %s) %s) (= (base %s) (base %s)) (= (akind %s) 1) (not (= %s 0)))", t, a, t, i, t, a, t, t))
	}
	return t
}

// sliceElem: address of element idx of slice s. Ground indices are given a name (an opaque constant equal to the index
// expression) so that quantified facts whose trigger is (ea arr (+ off j)) match them whatever arithmetic the index
// contains: the solver's simplifier would otherwise flatten (+ off (- len 1)) into a sum the trigger cannot match.
func (vc *VC) sliceElem(s, idx string) string {
	ix := idx
	if !strings.Contains(idx, "?") {
		ix = vc.nameIndex(idx)
	}
	return vc.ea("(s_arr "+s+")", "(+ (s_off "+s+") "+ix+")")
}

func (vc *VC) nameIndex(idx string) string {
	if vc.ixNames == nil {
		vc.ixNames = map[string]string{}
	}
	if n, ok := vc.ixNames[idx]; ok {
		return n
	}
	n := vc.freshConst("ix", "Int")
	vc.assume("(= " + n + " " + idx + ")")
	vc.ixNames[idx] = n
	return n
}

func (vc *VC) needEAQuant() {
	if vc.boxFacts == nil {
		vc.boxFacts = map[string]bool{}
	}
	if !vc.boxFacts["q:ea"] {
		vc.boxFacts["q:ea"] = true
		vc.assume("(forall ((a Int) (i Int)) (! (and (= (ea_arr (ea a i)) a) (= (ea_idx (ea a i)) i) (= (base (ea a i)) (base a)) (= (akind (ea a i)) 1) (not (= (ea a i) 0))) :pattern ((ea a i))))")
		// every element address is the address of some element: ea is onto the addresses of kind 1
		vc.assume("(forall ((a Int)) (! (=> (= (akind a) 1) (= (ea (ea_arr a) (ea_idx a)) a)) :pattern ((ea_arr a))))")
	}
}

// load a value of type t from address addr
func (vc *VC) load(st *State, addr string, t types.Type) string {
	switch u := t.Underlying().(type) {
	case *types.Struct:
		s := vc.sortOf(t)
		if u.NumFields() == 0 {
			return "(mk_" + s + " false)"
		}
		var fs []string
		for i := 0; i < u.NumFields(); i++ {
			fs = append(fs, vc.load(st, vc.fieldAddr(t, i, addr), u.Field(i).Type()))
		}
		return "(mk_" + s + " " + strings.Join(fs, " ") + ")"
	case *types.Array:
		n := int(u.Len())
		if n > 32 {
			vc.unsupported = append(vc.unsupported, "load of large array")
			return vc.freshConst("bigarr", vc.sortOf(t))
		}
		r := vc.zero(t)
		for i := 0; i < n; i++ {
			r = fmt.Sprintf("(store %s %d %s)", r, i, vc.load(st, vc.ea(addr, fmt.Sprint(i)), u.Elem()))
		}
		return r
	}
	c := vc.className(t)
	return "(select " + vc.heapOf(st, c) + " " + addr + ")"
}

func (vc *VC) store(st *State, addr string, t types.Type, val string) {
	switch u := t.Underlying().(type) {
	case *types.Struct:
		s := vc.sortOf(t)
		for i := 0; i < u.NumFields(); i++ {
			vc.store(st, vc.fieldAddr(t, i, addr), u.Field(i).Type(), "("+vc.fieldAcc(s, u, i)+" "+val+")")
		}
		return
	case *types.Array:
		n := int(u.Len())
		if n > 32 {
			vc.unsupported = append(vc.unsupported, "store of large array")
			vc.havocAll(st, "large array store")
			return
		}
		for i := 0; i < n; i++ {
			vc.store(st, vc.ea(addr, fmt.Sprint(i)), u.Elem(), fmt.Sprintf("(select %s %d)", val, i))
		}
		return
	}
	c := vc.className(t)
	h := vc.heapOf(st, c)
	nh := vc.define(vc.fresh(c), vc.classSortByName(c), "(store "+h+" "+addr+" "+val+")")
	st.heap[c] = nh
}

// storeZero writes the zero value of t at addr, element by element (no constant-array terms)
func (vc *VC) storeZero(st *State, addr string, t types.Type) {
	switch u := t.Underlying().(type) {
	case *types.Struct:
		for i := 0; i < u.NumFields(); i++ {
			vc.storeZero(st, vc.fieldAddr(t, i, addr), u.Field(i).Type())
		}
		return
	case *types.Array:
		n := int(u.Len())
		if n > 32 {
			vc.unsupported = append(vc.unsupported, "zeroing of large array")
			vc.havocAll(st, "large array")
			return
		}
		for i := 0; i < n; i++ {
			vc.storeZero(st, vc.ea(addr, fmt.Sprint(i)), u.Elem())
		}
		return
	}
	vc.store(st, addr, t, vc.zero(t))
}

// allocate a fresh reference
func (vc *VC) alloc(st *State, hint string) string {
	r := vc.freshConst(hint, "Int")
	vc.assume(fmt.Sprintf("(and (> %s %s) (= (base %s) %s) (= (akind %s) 0))", r, st.hw, r, r, r))
	nhw := vc.define(vc.fresh("hw"), "Int", r)
	st.hw = nhw
	return r
}

// well-formedness of a reference read from the pre-state/heap: it was allocated before now
func (vc *VC) refFact(st *State, t types.Type, v string) string {
	switch t.Underlying().(type) {
	case *types.Pointer, *types.Map, *types.Chan:
		return fmt.Sprintf("(<= (base %s) %s)", v, st.hw)
	case *types.Slice:
		return fmt.Sprintf("(and (<= (base (s_arr %s)) %s) (>= (s_off %s) 0) (>= (s_len %s) 0) (>= (s_cap %s) (s_len %s)) (=> (= (s_arr %s) 0) (= (s_cap %s) 0)) (< (+ (s_off %s) (s_cap %s)) 4611686018427387904))", v, st.hw, v, v, v, v, v, v, v, v)
	}
	return ""
}

// merge states at a join: conds[i] is the edge condition of states[i]
func (vc *VC) merge(states []*State, conds []string, hint string) *State {
	if len(states) == 1 {
		return states[0].clone()
	}
	out := states[0].clone()
	pick := func(get func(*State) string, sort string, name string) string {
		first := get(states[0])
		same := true
		for _, s := range states[1:] {
			if get(s) != first {
				same = false
			}
		}
		if same {
			return first
		}
		e := get(states[len(states)-1])
		for i := len(states) - 2; i >= 0; i-- {
			e = "(ite " + conds[i] + " " + get(states[i]) + " " + e + ")"
		}
		return vc.define(vc.fresh(name+"@"+hint), sort, e)
	}
	// heaps are merged through a fresh array constant with one conditional equality per predecessor (not an ite term):
	// the solver's e-graph then identifies the merged heap with the incoming one on each path, so quantified facts whose
	// triggers mention the incoming heap still fire for reads of the merged heap.
	pickHeap := func(k string) string {
		first := vc.heapOf(states[0], k)
		same := true
		for _, s := range states[1:] {
			if vc.heapOf(s, k) != first {
				same = false
			}
		}
		if same {
			return first
		}
		n := vc.freshConst(k+"@"+hint, vc.classSortByName(k))
		for i, s := range states {
			vc.assume("(=> " + conds[i] + " (= " + n + " " + vc.heapOf(s, k) + "))")
		}
		return n
	}
	for _, k := range vc.classOrd {
		out.heap[k] = pickHeap(k)
	}
	out.hw = pick(func(s *State) string { return s.hw }, "Int", "hw")
	gk := map[string]bool{}
	for _, s := range states {
		for k := range s.ghost {
			gk[k] = true
		}
	}
	var gks []string
	for k := range gk {
		gks = append(gks, k)
	}
	sort.Strings(gks)
	for _, k := range gks {
		k := k
		srt := vc.ghostSort(k)
		out.ghost[k] = pick(func(s *State) string {
			if v, ok := s.ghost[k]; ok {
				return v
			}
			return vc.ghostInit(k)
		}, srt, "ghost_"+k)
	}
	// defers: keep the longest common prefix (paths with different pending defers are not merged precisely)
	out.defers = nil
	for i, d := range states[0].defers {
		ok := true
		for _, s := range states[1:] {
			if i >= len(s.defers) || s.defers[i].desc != d.desc {
				ok = false
			}
		}
		if ok {
			out.defers = append(out.defers, d)
		}
	}
	for _, s := range states {
		for _, d := range s.defers {
			found := false
			for _, e := range out.defers {
				if e.desc == d.desc {
					found = true
				}
			}
			if !found {
				out.defers = append(out.defers, d)
			}
		}
	}
	return out
}

func (vc *VC) ghostSort(k string) string {
	if g, ok := vc.P.Ghosts[k]; ok {
		return g.Sort
	}
	return "Int"
}
func (vc *VC) ghostInit(k string) string {
	if g, ok := vc.P.Ghosts[k]; ok {
		return g.Init
	}
	return "0"
}

func and(xs ...string) string {
	var ys []string
	for _, x := range xs {
		if x == "true" || x == "" {
			continue
		}
		if x == "false" {
			return "false"
		}
		ys = append(ys, x)
	}
	if len(ys) == 0 {
		return "true"
	}
	if len(ys) == 1 {
		return ys[0]
	}
	return "(and " + strings.Join(ys, " ") + ")"
}
func or(xs ...string) string {
	var ys []string
	for _, x := range xs {
		if x == "false" || x == "" {
			continue
		}
		if x == "true" {
			return "true"
		}
		ys = append(ys, x)
	}
	if len(ys) == 0 {
		return "false"
	}
	if len(ys) == 1 {
		return ys[0]
	}
	return "(or " + strings.Join(ys, " ") + ")"
}
func not(x string) string {
	if x == "true" {
		return "false"
	}
	if x == "false" {
		return "true"
	}
	return "(not " + x + ")"
}
func implies(a, b string) string {
	if a == "true" {
		return b
	}
	return "(=> " + a + " " + b + ")"
}

// add an obligation
func (vc *VC) oblige(class, label, guard, formula, clause string, props []string, pos string) *Obligation {
	o := &Obligation{Func: vc.fn, Class: class, Label: label, Props: props, Guard: guard, Formula: formula, Clause: clause, NDecls: len(vc.lines), Pos: pos}
	// `checks only c1 c2`: the function is otherwise trusted; of its body only the named obligation classes are
	// generated (the dropped ones are listed as an assumption)
	if d := vc.P.Funcs[vc.fn]; d != nil {
		if co := d.First("checks"); strings.HasPrefix(co, "only ") && class != "cover-pre" && class != "cover-ret" {
			if !strings.Contains(" "+co[5:]+" ", " "+class+" ") {
				vc.note("ASSUMED on " + vc.fn + ": every obligation of its body except the classes " + co[5:] + " (checks only)")
				return o
			}
		}
	}
	vc.obls = append(vc.obls, o)
	// vacuity guard: the point where the obligation is checked must be reachable under everything assumed so far
	if guardCoverClasses[class] && guard != "true" {
		if vc.guardCovered == nil {
			vc.guardCovered = map[string]bool{}
		}
		key := fmt.Sprintf("%d:%s", len(vc.lines), guard)
		if !vc.guardCovered[key] {
			vc.guardCovered[key] = true
			lab := class
			if label != "" {
				lab += ":" + siteRe.ReplaceAllString(label, "")
			}
			c := &Obligation{Func: vc.fn, Class: "cover-guard", Label: lab, Props: []string{"vacuity"}, Guard: guard, Formula: "false",
				Clause: "the place where this obligation is checked is reachable under the assumptions made so far: " + clause, NDecls: len(vc.lines), Pos: pos, Expect: "sat"}
			vc.obls = append(vc.obls, c)
		}
	}
	// vacuity guard: a clause of the form A ==> B is only worth something if A can hold where the clause is checked
	if coverClasses[class] {
		if nodes := parseSx(formula); len(nodes) == 1 && !nodes[0].leaf && len(nodes[0].list) == 3 && nodes[0].list[0].atom == "=>" {
			ante := nodes[0].list[1].String()
			lab := class
			if label != "" {
				lab += ":" + siteRe.ReplaceAllString(label, "")
			}
			c := &Obligation{Func: vc.fn, Class: "cover", Label: lab, Props: []string{"vacuity"}, Guard: and(guard, ante), Formula: "false",
				Clause: "the antecedent of this clause is reachable: " + clause, NDecls: len(vc.lines), Pos: pos, Expect: "sat"}
			vc.obls = append(vc.obls, c)
		}
	}
	return o
}

// site counters (#3) are stripped from cover labels: a clause that applies to several call sites is vacuous only if
// its antecedent is unreachable at all of them
var siteRe = regexp.MustCompile(`#[0-9]+`)

var guardCoverClasses = map[string]bool{"maintains": true, "at-store": true, "at-call": true, "onk": true, "nok": true, "post": true, "inv-keep": true, "at-event": true, "pre@call": true}

var coverClasses = map[string]bool{"at-call": true, "onk": true, "nok": true, "post": true, "at-event": true}
