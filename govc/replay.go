package main

// Replay of solver counterexamples on the real code (DESIGN section 4, C.8): the model's input values become Go
// literals in an in-package test injected with `go test -overlay` (nothing is written into /repo); the observed
// results are substituted into the failed clause and decided by a ground solver query.

import (
	"bytes"
	"context"
	"encoding/json"
	"fmt"
	"go/types"
	"math/big"
	"os"
	"os/exec"
	"path/filepath"
	"strconv"
	"strings"
	"time"

	"golang.org/x/tools/go/ssa"
)

type ReplayResult struct {
	Confirmed  bool     `json:"confirmed"`
	Note       string   `json:"note"`
	Inputs     []string `json:"inputs,omitempty"`
	Call       string   `json:"call,omitempty"`
	Observed   string   `json:"observed,omitempty"`
	TestSource string   `json:"test_source,omitempty"`
	PackageDir string   `json:"package_dir,omitempty"`
	Output     string   `json:"output,omitempty"`
}

// ---------------------------------------------------------------- s-expressions

type sx struct {
	atom string
	list []*sx
	leaf bool
}

func parseSx(s string) []*sx {
	var out []*sx
	var stack []*sx
	i := 0
	push := func(n *sx) {
		if len(stack) == 0 {
			out = append(out, n)
		} else {
			top := stack[len(stack)-1]
			top.list = append(top.list, n)
		}
	}
	for i < len(s) {
		c := s[i]
		switch {
		case c == ' ' || c == '\n' || c == '\t' || c == '\r':
			i++
		case c == '(':
			n := &sx{}
			push(n)
			stack = append(stack, n)
			i++
		case c == ')':
			if len(stack) > 0 {
				stack = stack[:len(stack)-1]
			}
			i++
		case c == '|':
			j := strings.IndexByte(s[i+1:], '|')
			if j < 0 {
				return out
			}
			push(&sx{atom: s[i : i+j+2], leaf: true})
			i += j + 2
		case c == '"':
			j := strings.IndexByte(s[i+1:], '"')
			if j < 0 {
				return out
			}
			push(&sx{atom: s[i : i+j+2], leaf: true})
			i += j + 2
		default:
			j := i
			for j < len(s) && !strings.ContainsRune(" \n\t\r()", rune(s[j])) {
				j++
			}
			push(&sx{atom: s[i:j], leaf: true})
			i = j
		}
	}
	return out
}

func (n *sx) String() string {
	if n.leaf {
		return n.atom
	}
	var p []string
	for _, c := range n.list {
		p = append(p, c.String())
	}
	return "(" + strings.Join(p, " ") + ")"
}

func parseModel(out string) map[string]string {
	m := map[string]string{}
	i := strings.Index(out, "\n")
	if i < 0 {
		return m
	}
	for _, top := range parseSx(out[i+1:]) {
		if top.leaf {
			continue
		}
		for _, pair := range top.list {
			if !pair.leaf && len(pair.list) == 2 {
				m[pair.list[0].String()] = pair.list[1].String()
			}
		}
	}
	return m
}

// ---------------------------------------------------------------- model values -> Go

func parseBV(s string) (*big.Int, int, bool) {
	s = strings.TrimSpace(s)
	if strings.HasPrefix(s, "#x") {
		v, ok := new(big.Int).SetString(s[2:], 16)
		return v, 4 * (len(s) - 2), ok
	}
	if strings.HasPrefix(s, "#b") {
		v, ok := new(big.Int).SetString(s[2:], 2)
		return v, len(s) - 2, ok
	}
	if strings.HasPrefix(s, "(_ bv") {
		f := strings.Fields(strings.Trim(s, "()"))
		if len(f) == 3 {
			v, ok := new(big.Int).SetString(f[1][2:], 10)
			w, _ := strconv.Atoi(f[2])
			return v, w, ok
		}
	}
	return nil, 0, false
}

func parseIntVal(s string) (*big.Int, bool) {
	s = strings.TrimSpace(s)
	if v, w, ok := parseBV(s); ok {
		// signed interpretation
		if v.Bit(w-1) == 1 {
			v = new(big.Int).Sub(v, pow2(w))
		}
		return v, true
	}
	if strings.HasPrefix(s, "(-") {
		inner := strings.TrimSpace(strings.TrimSuffix(strings.TrimPrefix(s, "(-"), ")"))
		v, ok := new(big.Int).SetString(inner, 10)
		if !ok {
			return nil, false
		}
		return v.Neg(v), true
	}
	v, ok := new(big.Int).SetString(s, 10)
	return v, ok
}

func parseUintVal(s string) (*big.Int, bool) {
	if v, _, ok := parseBV(s); ok {
		return v, true
	}
	return parseIntVal(s)
}

// float64 bits from an SMT FP value
func parseFPBits(s string) (uint64, bool) {
	s = strings.TrimSpace(s)
	switch {
	case strings.HasPrefix(s, "(_ +zero"):
		return 0, true
	case strings.HasPrefix(s, "(_ -zero"):
		return 1 << 63, true
	case strings.HasPrefix(s, "(_ +oo"):
		return 0x7ff0000000000000, true
	case strings.HasPrefix(s, "(_ -oo"):
		return 0xfff0000000000000, true
	case strings.HasPrefix(s, "(_ NaN"):
		return 0x7ff8000000000001, true
	}
	if strings.HasPrefix(s, "(fp ") {
		f := strings.Fields(strings.Trim(s, "()"))
		if len(f) == 4 {
			sg, _, ok1 := parseBV(f[1])
			ex, _, ok2 := parseBV(f[2])
			mt, _, ok3 := parseBV(f[3])
			if ok1 && ok2 && ok3 {
				return sg.Uint64()<<63 | ex.Uint64()<<52 | mt.Uint64(), true
			}
		}
	}
	return 0, false
}

func qualify(pkgName, typeName, inPkg string) string {
	if pkgName == inPkg {
		return typeName
	}
	return pkgName + "." + typeName
}

// goLiteral renders a model value of Go type t as a Go expression usable inside package inPkg
func goLiteral(vc *VC, t types.Type, val string, model map[string]string, term string, inPkg string) (string, bool) {
	tname := func(t types.Type) string {
		return types.TypeString(t, func(p *types.Package) string {
			if p.Name() == inPkg {
				return ""
			}
			return p.Name()
		})
	}
	if _, signed, ok := intInfo(t); ok {
		var v *big.Int
		var ok2 bool
		if signed {
			v, ok2 = parseIntVal(val)
		} else {
			v, ok2 = parseUintVal(val)
		}
		if !ok2 {
			return "", false
		}
		return fmt.Sprintf("%s(%s)", tname(t), v.String()), true
	}
	if _, ok := isFloat(t); ok {
		bits, ok := parseFPBits(val)
		if !ok {
			return "", false
		}
		return fmt.Sprintf("%s(math.Float64frombits(0x%x))", tname(t), bits), true
	}
	if isBool(t) {
		return val, val == "true" || val == "false"
	}
	if isIface(t) {
		tagS, ok := model["(tag "+term+")"]
		if !ok {
			return "", false
		}
		tag, ok := parseIntVal(tagS)
		if !ok {
			return "", false
		}
		if tag.Sign() == 0 {
			return "nil", true
		}
		impls, _ := vc.P.Implementers(t)
		for _, it := range impls {
			if int64(vc.typeID(it)) == tag.Int64() {
				k := "(|unbox_" + sanitize(types.TypeString(it, nil)) + "| " + term + ")"
				uv, ok := model[k]
				if !ok {
					return "", false
				}
				return goLiteral(vc, it, uv, model, "", inPkg)
			}
		}
		return "", false
	}
	return "", false
}

type replayJob struct {
	r     *Result
	id    int
	call  string
	args  []string
	nres  int
	pkg   string // package name
	dir   string // package dir relative to repo
	note  string
	fn    *ssa.Function
}

// replayBatch runs all counterexamples of a check in one `go test` per package
func replayBatch(P *Program, results []*Result) map[*Result]*ReplayResult {
	out := map[*Result]*ReplayResult{}
	byPkg := map[string][]*replayJob{}
	id := 0
	for _, r := range results {
		if r.Status != "failed" || r.FV == nil || r.Obl.Expect == "sat" || r.Region == "inside" {
			continue
		}
		if len(r.Model) == 0 {
			out[r] = &ReplayResult{Note: "the solver returned no model values"}
			continue
		}
		fn := P.fnByKey[r.FV.Key]
		if fn == nil || fn.Parent() != nil {
			out[r] = &ReplayResult{Note: "closures cannot be called directly from a test"}
			continue
		}
		pkgName := fn.Pkg.Pkg.Name()
		dir := "engine"
		if fn.Pkg.Pkg.Path() == rootPath {
			dir = "."
		}
		var args []string
		ok := true
		for _, in := range r.FV.Inputs {
			lit, good := goLiteral(r.FV.VC, in.Typ, r.Model[in.Term], r.Model, in.Term, pkgName)
			if !good {
				ok = false
				out[r] = &ReplayResult{Note: fmt.Sprintf("input %s of type %s has no literal form (heap-shaped or opaque input)", in.Name, in.Typ)}
				break
			}
			args = append(args, lit)
		}
		if !ok {
			continue
		}
		id++
		j := &replayJob{r: r, id: id, args: args, nres: fn.Signature.Results().Len(), pkg: pkgName, dir: dir, fn: fn}
		if fn.Signature.Recv() != nil {
			j.call = fmt.Sprintf("(%s).%s(%s)", args[0], fn.Name(), strings.Join(args[1:], ", "))
		} else {
			j.call = fmt.Sprintf("%s(%s)", fn.Name(), strings.Join(args, ", "))
		}
		byPkg[dir] = append(byPkg[dir], j)
	}
	for dir, jobs := range byPkg {
		src := replayTestSource(jobs)
		outp, err := runOverlayTest(dir, src)
		obs := map[int]string{}
		for _, ln := range strings.Split(outp, "\n") {
			if i := strings.Index(ln, "VERIF-REPLAY "); i >= 0 {
				f := strings.SplitN(strings.TrimSpace(ln[i+len("VERIF-REPLAY "):]), " ", 2)
				if n, e := strconv.Atoi(f[0]); e == nil && len(f) == 2 {
					obs[n] = f[1]
				}
			}
		}
		for _, j := range jobs {
			rr := &ReplayResult{Inputs: j.args, Call: j.call, PackageDir: dir, TestSource: src}
			o, seen := obs[j.id]
			if !seen {
				rr.Note = "replay produced no observation"
				if err != nil {
					rr.Note += ": " + err.Error()
				}
				rr.Output = tailStr(outp, 2000)
				out[j.r] = rr
				continue
			}
			rr.Observed = o
			rr.Confirmed, rr.Note = judgeReplay(P, j, o)
			out[j.r] = rr
		}
	}
	return out
}

func tailStr(s string, n int) string {
	if len(s) > n {
		return s[len(s)-n:]
	}
	return s
}

func replayTestSource(jobs []*replayJob) string {
	var b bytes.Buffer
	pkg := jobs[0].pkg
	q := ""
	imp := ""
	if pkg != "engine" {
		q = "engine."
		imp = "\t\"github.com/ichiban/prolog/engine\"\n"
	}
	fmt.Fprintf(&b, "package %s\n\nimport (\n\t\"fmt\"\n\t\"math\"\n\t\"testing\"\n%s)\n\nvar _ = math.Pi\n\n", pkg, imp)
	fmt.Fprintf(&b, `func verifEnc(v interface{}) string {
	switch x := v.(type) {
	case nil:
		return "nil"
	case %sInteger:
		return fmt.Sprintf("Integer:%%d", int64(x))
	case %sFloat:
		return fmt.Sprintf("Float:%%d", math.Float64bits(float64(x)))
	case bool:
		return fmt.Sprintf("bool:%%v", x)
	case int:
		return fmt.Sprintf("int:%%d", x)
	case int64:
		return fmt.Sprintf("int:%%d", x)
	case float64:
		return fmt.Sprintf("Float:%%d", math.Float64bits(x))
	case error:
		return verifErr(x)
	}
	return fmt.Sprintf("other:%%T", v)
}

`, q, q)
	if pkg == "engine" {
		b.WriteString(`func verifErr(e error) string {
	if ev, ok := e.(exceptionalValue); ok {
		return fmt.Sprintf("exceptionalValue:%d", ev)
	}
	return fmt.Sprintf("error:%T", e)
}
`)
	} else {
		b.WriteString("func verifErr(e error) string { return fmt.Sprintf(\"error:%T\", e) }\n")
	}
	b.WriteString("\nfunc TestVerifReplay(t *testing.T) {\n")
	for _, j := range jobs {
		fmt.Fprintf(&b, "\tfunc() {\n\t\tdefer func() {\n\t\t\tif r := recover(); r != nil {\n\t\t\t\tfmt.Printf(\"VERIF-REPLAY %d panic:%%v\\n\", r)\n\t\t\t}\n\t\t}()\n", j.id)
		var rs []string
		for i := 0; i < j.nres; i++ {
			rs = append(rs, fmt.Sprintf("r%d", i))
		}
		if j.nres > 0 {
			fmt.Fprintf(&b, "\t\t%s := %s\n", strings.Join(rs, ", "), j.call)
		} else {
			fmt.Fprintf(&b, "\t\t%s\n", j.call)
		}
		var encs []string
		for _, r := range rs {
			encs = append(encs, "verifEnc("+r+")")
		}
		fmt.Fprintf(&b, "\t\tfmt.Println(\"VERIF-REPLAY %d ok\"", j.id)
		for _, e := range encs {
			fmt.Fprintf(&b, ", %s", e)
		}
		b.WriteString(")\n\t}()\n")
	}
	b.WriteString("}\n")
	return b.String()
}

func runOverlayTest(pkgDir, src string) (string, error) {
	dir := filepath.Join(verifDir, "work", fmt.Sprintf("replay-%d-%d", os.Getpid(), time.Now().UnixNano()))
	if err := os.MkdirAll(dir, 0o755); err != nil {
		return "", err
	}
	defer os.RemoveAll(dir)
	testFile := filepath.Join(dir, "zz_verif_replay_test.go")
	if err := os.WriteFile(testFile, []byte(src), 0o644); err != nil {
		return "", err
	}
	target := filepath.Join(repoDir, pkgDir, "zz_verif_replay_test.go")
	ov, _ := json.Marshal(map[string]interface{}{"Replace": map[string]string{target: testFile}})
	ovFile := filepath.Join(dir, "overlay.json")
	_ = os.WriteFile(ovFile, ov, 0o644)
	ctx, cancel := context.WithTimeout(context.Background(), 240*time.Second)
	defer cancel()
	pkgArg := "./" + pkgDir
	if pkgDir == "." {
		pkgArg = "."
	}
	cmd := exec.CommandContext(ctx, "go", "test", "-overlay", ovFile, "-vet=off", "-count=1", "-timeout", "60s", "-run", "^TestVerifReplay$", "-v", pkgArg)
	cmd.Dir = repoDir
	cmd.Env = append(os.Environ(), "GOFLAGS=-mod=mod", "GOPROXY=off", "GOSUMDB=off", "GOTOOLCHAIN=local")
	var buf bytes.Buffer
	cmd.Stdout = &buf
	cmd.Stderr = &buf
	err := cmd.Run()
	return buf.String(), err
}

// judgeReplay decides whether the observation violates the obligation
func judgeReplay(P *Program, j *replayJob, obs string) (bool, string) {
	o := j.r.Obl
	if strings.HasPrefix(obs, "panic:") {
		if panicClasses[o.Class] {
			return true, "the real function panics on this input: " + obs
		}
		return true, "the real function panics on this input (the obligation was about its result): " + obs
	}
	if panicClasses[o.Class] {
		return false, "the real function did not panic on the model's input (the model may live in the slack of a callee contract)"
	}
	if o.Class != "post" && o.Class != "typeinv" {
		return false, "obligation class " + o.Class + " is not observable from the function's results"
	}
	f := strings.Fields(strings.TrimPrefix(obs, "ok"))
	fv := j.r.FV
	// ground query: inputs = model, results = observed, assert !clause
	d := fv.Decl
	vc := NewVC(P, fv.VC.mode, fv.Key, nil)
	st := vc.initState()
	env := vc.newSpecEnv(j.fn, st, st)
	fr := vc.newFrame(j.fn, "", 0)
	fr.rootFr = fr
	fr.entry = st
	env.fr = nil
	for _, in := range fv.Inputs {
		c := vc.declare(in.Term, vc.sortOf(in.Typ))
		env.vars[in.Name] = sval{t: c, typ: in.Typ}
		for _, k := range modelKeysFor(fv.VC, in) {
			if v, ok := j.r.Model[k]; ok {
				// declare unbox functions by touching them
				if isIface(in.Typ) {
					impls, _ := P.Implementers(in.Typ)
					for _, it := range impls {
						if strings.Contains(k, "unbox_"+sanitize(types.TypeString(it, nil))+"|") {
							vc.boxFns(it)
						}
					}
				}
				vc.assume("(= " + k + " " + v + ")")
			}
		}
		for _, fct := range fr.typeFacts(st, in.Typ, c, false) {
			vc.assume(fct)
		}
	}
	sig := j.fn.Signature
	if len(f) != sig.Results().Len() {
		return false, "could not parse the observation"
	}
	var res []string
	for i := 0; i < sig.Results().Len(); i++ {
		rt := sig.Results().At(i).Type()
		c := vc.declare(fmt.Sprintf("|$obs%d|", i), vc.sortOf(rt))
		res = append(res, c)
		if err := assumeObserved(vc, fr, st, c, rt, f[i]); err != nil {
			return false, "observation not expressible: " + err.Error()
		}
	}
	bindResults(env, j.fn, sig, res)
	var clause string
	if o.Class == "post" {
		for _, c := range d.Get("ensures") {
			if c.Label == o.Label {
				clause = env.trBool(c.E)
			}
		}
	} else {
		// typeinv of result i
		idx, _ := strconv.Atoi(strings.TrimPrefix(o.Label, "result"))
		if idx < len(res) {
			clause = and(fr.invFacts(st, sig.Results().At(idx).Type(), res[idx])...)
		}
	}
	if clause == "" || len(vc.specErrors) > 0 {
		return false, "clause could not be re-evaluated on the observation"
	}
	var b strings.Builder
	for _, l := range vc.sliceLines(len(vc.lines), clause) {
		b.WriteString(l + "\n")
	}
	b.WriteString("(assert (not " + clause + "))\n(check-sat)\n")
	file := filepath.Join(workDir, fmt.Sprintf("judge-%d.smt2", j.id))
	_ = os.WriteFile(file, []byte(b.String()), 0o644)
	st1, _, _ := runSolver(solvers[0], file, 20, 0)
	switch st1 {
	case "sat":
		return true, "the clause is false of the values the real function returned"
	case "unsat":
		return false, "the real function's results satisfy the clause on the model's input: the counterexample lives in an abstraction (callee contract, extern, havoc)"
	}
	return false, "ground check of the observation was inconclusive"
}

func modelKeysFor(vc *VC, in inputVar) []string {
	return modelTerms(vc, in)
}

func assumeObserved(vc *VC, fr *frame, st *State, c string, t types.Type, obs string) error {
	i := strings.Index(obs, ":")
	kind, val := obs, ""
	if i >= 0 {
		kind, val = obs[:i], obs[i+1:]
	}
	lit := func(tt types.Type) (string, error) {
		if w, _, ok := intInfo(tt); ok {
			v, ok := new(big.Int).SetString(val, 10)
			if !ok {
				return "", fmt.Errorf("bad integer %q", val)
			}
			return vc.intLit(v, w), nil
		}
		if _, ok := isFloat(tt); ok {
			bits, err := strconv.ParseUint(val, 10, 64)
			if err != nil {
				return "", err
			}
			vc.usesFP = true
			return fmt.Sprintf("(fp #b%01b #b%011b #b%052b)", bits>>63, (bits>>52)&0x7ff, bits&0xfffffffffffff), nil
		}
		if isBool(tt) {
			return val, nil
		}
		return "", fmt.Errorf("no literal for %s", tt)
	}
	if !isIface(t) {
		l, err := lit(t)
		if err != nil {
			return err
		}
		vc.assume("(= " + c + " " + l + ")")
		return nil
	}
	switch kind {
	case "nil":
		vc.assume("(= " + c + " iface_nil)")
		return nil
	case "Integer", "Float", "exceptionalValue":
		tt := vc.P.namedType(kind)
		if tt == nil {
			return fmt.Errorf("unknown type %s", kind)
		}
		l, err := lit(tt)
		if err != nil {
			return err
		}
		vc.assume("(= " + c + " " + vc.box(tt, l) + ")")
		return nil
	case "error", "other":
		// some value of a type we do not model: non-nil and different from the modelled types
		ids := []string{"0"}
		for _, n := range []string{"Integer", "Float", "exceptionalValue"} {
			ids = append(ids, fmt.Sprint(vc.typeID(vc.P.namedType(n))))
		}
		vc.assume("(distinct (tag " + c + ") " + strings.Join(ids, " ") + ")")
		return nil
	}
	return fmt.Errorf("unknown observation %q", obs)
}
