package main

// SSA -> SMT encoder (guarded single-assignment form). DESIGN.md Appendix C.

import (
	"fmt"
	"go/constant"
	"go/token"
	"go/types"
	"math"
	"math/big"
	"sort"
	"strings"

	"golang.org/x/tools/go/ssa"
)

type retInfo struct {
	guard string
	vals  []string
	st    *State
	block *ssa.BasicBlock
}

type closureInfo struct {
	fn       *ssa.Function
	bindings []string
	bvals    []ssa.Value
}

type loopInfo struct {
	header   *ssa.BasicBlock
	ordinal  int
	body     map[*ssa.BasicBlock]bool
	backEdge map[*ssa.BasicBlock]bool // preds of header inside the loop
}

type frame struct {
	vc       *VC
	fn       *ssa.Function
	prefix   string
	vals     map[ssa.Value]string
	tuples   map[ssa.Value][]string
	guard    string
	depth    int
	top      bool
	contract *Decl
	rets     []retInfo
	gin      map[*ssa.BasicBlock]string
	sout     map[*ssa.BasicBlock]*State
	edge     map[[2]int]string // (from,to) block index -> condition
	closures map[ssa.Value]*closureInfo
	kparam   ssa.Value
	entry    *State
	hazardN  map[string]int
	loops    map[*ssa.BasicBlock]*loopInfo
	binds    map[string][]string // bind name -> tuple of terms
	callOrd  map[string]int
	props    []string
	nosafety bool
	env0     *specEnv
	localNames map[string][]ssa.Value
	panics   []string
	parent   *frame
	rootFr   *frame
	kpoints  int
	lets     []letBinding
	bindVals map[string]sval
	callSeqN map[string]int
	kcell    ssa.Value
	pubPoints map[ssa.Instruction][]*ssa.Alloc
	eventVal  *sval
	marked    map[string]bool
	pubN      int
	dynCalls int
	atCallN  int
	localParams map[ssa.Value]bool
	localRefs map[string][]localRef
	curBlock *ssa.BasicBlock
	boxN     int
	atCallSeen map[*Clause]bool
	atStoreN int
}

// symbols of the SMT prelude that a Go parameter or local may not shadow (|base| and base are the same SMT symbol)
var preludeSyms = map[string]bool{"base": true, "ea": true, "ea_arr": true, "ea_idx": true, "akind": true, "slen": true, "tag": true,
	"iface_nil": true, "fdiv": true, "fmod": true, "tdiv": true, "trem": true, "sidx": true, "ssub": true, "sconcat": true, "scmp": true,
	"Iface": true, "Slice": true, "Str": true, "hw": true, "select": true, "store": true, "true": true, "false": true, "not": true, "and": true, "or": true, "ite": true, "let": true, "exists": true, "forall": true, "distinct": true, "abs": true, "div": true, "mod": true}

func (fr *frame) name(v ssa.Value) string {
	n := fr.prefix + v.Name()
	if preludeSyms[n] {
		n += "$go"
	}
	return "|" + n + "|"
}

// frozenSpill: x is the cell a parameter is spilled into (closures capture it) and the contract declares that
// parameter `frozen`; the structural obligation <fn>:frozen:<name> (checked in the same run) shows that the spill is the
// only store into the cell in the function and all its closures, so its content is the parameter whatever is called.
func (fr *frame) frozenSpill(x *ssa.Alloc) bool {
	if fr.contract == nil || x.Referrers() == nil {
		return false
	}
	var param *ssa.Parameter
	for _, r := range *x.Referrers() {
		if st, ok := r.(*ssa.Store); ok && st.Addr == ssa.Value(x) {
			if p, ok := st.Val.(*ssa.Parameter); ok {
				param = p
			}
		}
	}
	if param == nil {
		return false
	}
	for _, c := range fr.contract.Get("frozen") {
		for _, name := range strings.Split(c.Text, ",") {
			if strings.TrimSpace(name) == param.Name() {
				return countStores(x, map[ssa.Value]bool{}) == 1 && cellOnlyCaptured(x, map[ssa.Value]bool{})
			}
		}
	}
	return false
}

// cellOnlyCaptured: the address v is only loaded from, stored to, or captured by closures that do the same; it is never
// passed to a call, stored as a value or offset, so no code outside the function and its closures can write the cell.
func cellOnlyCaptured(v ssa.Value, seen map[ssa.Value]bool) bool {
	if seen[v] || v.Referrers() == nil {
		return true
	}
	seen[v] = true
	for _, r := range *v.Referrers() {
		switch x := r.(type) {
		case *ssa.DebugRef:
		case *ssa.UnOp:
			if x.Op != token.MUL {
				return false
			}
		case *ssa.Store:
			if x.Addr != v {
				return false
			}
		case *ssa.MakeClosure:
			fn, ok := x.Fn.(*ssa.Function)
			if !ok {
				return false
			}
			for i, b := range x.Bindings {
				if b == v && !cellOnlyCaptured(fn.FreeVars[i], seen) {
					return false
				}
			}
		default:
			return false
		}
	}
	return true
}

func posOf(fn *ssa.Function, p token.Pos) string {
	if !p.IsValid() {
		return ""
	}
	pp := fn.Prog.Fset.Position(p)
	return fmt.Sprintf("%s:%d", pp.Filename, pp.Line)
}

func floatLit(f float64, w int) string {
	if w == 32 {
		b := math.Float32bits(float32(f))
		return fmt.Sprintf("(fp #b%01b #b%08b #b%023b)", b>>31, (b>>23)&0xff, b&0x7fffff)
	}
	b := math.Float64bits(f)
	return fmt.Sprintf("(fp #b%01b #b%011b #b%052b)", b>>63, (b>>52)&0x7ff, b&0xfffffffffffff)
}

func (fr *frame) constVal(c *ssa.Const) string {
	vc := fr.vc
	t := c.Type()
	if c.Value == nil {
		return vc.zero(t)
	}
	if w, _, ok := intInfo(t); ok {
		bi, _ := new(big.Int).SetString(constant.ToInt(c.Value).ExactString(), 10)
		if bi == nil {
			bi = big.NewInt(0)
		}
		return vc.intLit(bi, w)
	}
	if w, ok := isFloat(t); ok {
		f, _ := constant.Float64Val(constant.ToFloat(c.Value))
		vc.usesFP = true
		return floatLit(f, w)
	}
	if isBool(t) {
		if constant.BoolVal(c.Value) {
			return "true"
		}
		return "false"
	}
	if isString(t) {
		return vc.strLit(constant.StringVal(c.Value))
	}
	vc.unsupported = append(vc.unsupported, "const of type "+t.String())
	return vc.freshConst("const", vc.sortOf(t))
}

func (fr *frame) val(v ssa.Value) string {
	vc := fr.vc
	switch x := v.(type) {
	case *ssa.Const:
		return fr.constVal(x)
	case *ssa.Global:
		return vc.globalAddr(x)
	case *ssa.Function:
		return fmt.Sprintf("%d", 1000000+vc.P.TypeID("fn:"+x.String()))
	}
	if s, ok := fr.vals[v]; ok {
		return s
	}
	// used before definition (loop-carried value not through a phi should not happen in SSA): havoc
	s := vc.declare(fr.name(v), vc.sortOf(v.Type()))
	fr.vals[v] = s
	return s
}

func (vc *VC) globalAddr(g *ssa.Global) string {
	name := "|&" + g.Pkg.Pkg.Name() + "." + g.Name() + "|"
	if !vc.declared[name] {
		vc.declare(name, "Int")
		id := vc.P.TypeID("global:" + name)
		// globals are distinct base objects allocated before the function started
		vc.assume(fmt.Sprintf("(and (= %s (- %d)) (= (base %s) %s) (= (akind %s) 0))", name, id, name, name, name))
	}
	return name
}

// set defines the SMT value of an SSA value
func (fr *frame) set(v ssa.Value, term string) {
	vc := fr.vc
	n := fr.name(v)
	if vc.declared[n] {
		// re-encoding of the same name (should not happen)
		n = vc.fresh(strings.Trim(n, "|"))
	}
	fr.vals[v] = vc.define(n, vc.sortOf(v.Type()), term)
}

func (fr *frame) havocVal(v ssa.Value, why string) string {
	vc := fr.vc
	if _, ok := v.Type().(*types.Tuple); ok {
		tup := v.Type().(*types.Tuple)
		var ts []string
		for i := 0; i < tup.Len(); i++ {
			c := vc.freshConst(fr.prefix+v.Name()+"#"+fmt.Sprint(i), vc.sortOf(tup.At(i).Type()))
			ts = append(ts, c)
		}
		fr.tuples[v] = ts
		return ""
	}
	n := fr.name(v)
	if vc.declared[n] {
		n = vc.fresh(strings.Trim(n, "|"))
	}
	s := vc.declare(n, vc.sortOf(v.Type()))
	fr.vals[v] = s
	return s
}

// facts that hold of any value of the given static type (ranges in int mode, reference well-formedness, closed interface worlds, type invariants)
func (fr *frame) typeFacts(st *State, t types.Type, v string, withInv bool) []string {
	vc := fr.vc
	var out []string
	if w, signed, ok := intInfo(t); ok && vc.mode == modeInt {
		if signed {
			out = append(out, fmt.Sprintf("(inS%d %s)", w, v))
		} else {
			out = append(out, fmt.Sprintf("(inU%d %s)", w, v))
		}
	}
	if f := vc.refFact(st, t, v); f != "" {
		out = append(out, f)
	}
	if isIface(t) {
		out = append(out, "(=> (= (tag "+v+") 0) (= "+v+" iface_nil))")
		if f := vc.ifaceTypeFact(t, v); f != "" {
			out = append(out, f)
		}
		if withInv {
			// invariants of implementers
			impls, _ := vc.P.Implementers(t)
			for _, it := range impls {
				for _, inv := range vc.P.typeInvFor(it) {
					f := fr.typeInvTerm(inv, it, vc.unbox(it, v), st)
					out = append(out, implies(vc.hasTag(it, v), f))
				}
			}
		}
	} else if withInv {
		for _, inv := range vc.P.typeInvFor(t) {
			out = append(out, fr.typeInvTerm(inv, t, v, st))
		}
	}
	if s, ok := t.Underlying().(*types.Struct); ok && vc.mode == modeInt {
		sn := vc.sortOf(t)
		for i := 0; i < s.NumFields(); i++ {
			for _, f := range fr.typeFacts(st, s.Field(i).Type(), "("+vc.fieldAcc(sn, s, i)+" "+v+")", withInv) {
				out = append(out, f)
			}
		}
	}
	return out
}

func (P *Program) typeInvFor(t types.Type) []*Decl {
	k := types.TypeString(t, func(*types.Package) string { return "" })
	return P.TypeInvs[k]
}

func (fr *frame) typeInvTerm(inv *Decl, t types.Type, v string, st *State) string {
	env := fr.vc.newSpecEnv(fr.fn, st, st)
	env.vars["self"] = sval{t: v, typ: t}
	r := env.trBool(inv.Body)
	return r
}

func (fr *frame) assumeTypeFacts(g string, st *State, t types.Type, v string) {
	for _, f := range fr.typeFacts(st, t, v, true) {
		fr.vc.assumeG(g, f)
	}
}

// ---------------------------------------------------------------- hazards

var panicClasses = map[string]bool{"idx": true, "nil": true, "div0": true, "shift": true, "tassert": true, "mapnil": true, "makelen": true, "chanclose": true, "allocsize": true, "panic": true}

func (fr *frame) hazard(class, g, okCond string, pos token.Pos, what string) {
	if fr.nosafety && panicClasses[class] {
		return
	}
	// `safety only c1 c2`: of the panic classes, only the named ones are obligations of this function (listed)
	if root := fr.rootFr; root != nil && root.contract != nil && panicClasses[class] {
		if sc := root.contract.First("safety"); strings.HasPrefix(sc, "only ") {
			if !strings.Contains(" "+sc[5:]+" ", " "+class+" ") || fr != root {
				fr.vc.note("safety restricted on " + fr.vc.fn + ": only the panic classes " + sc[5:] + " of its own body (not of inlined callees) are checked")
				return
			}
		}
	}
	// `recovers <class>`: the function handles this panic itself with a deferred recover (only honoured while it has one)
	if fr.contract != nil && panicClasses[class] {
		for _, c := range fr.contract.Get("recovers") {
			if strings.Contains(" "+c.Text+" ", " "+class+" ") && hasDeferredRecover(fr.fn) {
				fr.vc.note("panic class " + class + " in " + fr.vc.fn + " is handled by the function's own deferred recover()")
				return
			}
		}
	}
	if okCond == "true" {
		return
	}
	fr.hazardN[class]++
	label := fmt.Sprintf("%s%d", fr.prefix, fr.hazardN[class])
	var props []string
	if panicClasses[class] {
		props = []string{"C05"}
		// `safety own`: a panic here is also a violation of the function's own properties
		if root := fr.rootFr; root != nil && root.contract != nil && root.contract.First("safety") == "own" {
			for _, p := range fr.props {
				if p != "C05" {
					props = append(props, p)
				}
			}
		}
	} else {
		props = fr.props
	}
	o := fr.vc.oblige(class, label, g, okCond, what, props, posOf(fr.fn, pos))
	_ = o
}

func hasDeferredRecover(fn *ssa.Function) bool {
	for _, b := range fn.Blocks {
		for _, in := range b.Instrs {
			d, ok := in.(*ssa.Defer)
			if !ok {
				continue
			}
			callee := d.Call.StaticCallee()
			if callee == nil {
				continue
			}
			for _, cb := range callee.Blocks {
				for _, ci := range cb.Instrs {
					if call, ok := ci.(*ssa.Call); ok {
						if bi, ok := call.Call.Value.(*ssa.Builtin); ok && bi.Name() == "recover" {
							return true
						}
					}
				}
			}
		}
	}
	return false
}

// ---------------------------------------------------------------- driver

func (vc *VC) newFrame(fn *ssa.Function, prefix string, depth int) *frame {
	return &frame{vc: vc, fn: fn, prefix: prefix, vals: map[ssa.Value]string{}, tuples: map[ssa.Value][]string{}, depth: depth,
		gin: map[*ssa.BasicBlock]string{}, sout: map[*ssa.BasicBlock]*State{}, edge: map[[2]int]string{}, closures: map[ssa.Value]*closureInfo{},
		hazardN: map[string]int{}, binds: map[string][]string{}, callOrd: map[string]int{}}
}

func findLoops(fn *ssa.Function) map[*ssa.BasicBlock]*loopInfo {
	loops := map[*ssa.BasicBlock]*loopInfo{}
	for _, b := range fn.Blocks {
		for _, s := range b.Succs {
			if s.Dominates(b) { // back edge b -> s
				li := loops[s]
				if li == nil {
					li = &loopInfo{header: s, body: map[*ssa.BasicBlock]bool{s: true}, backEdge: map[*ssa.BasicBlock]bool{}}
					loops[s] = li
				}
				li.backEdge[b] = true
				// body: nodes that reach b without passing through s
				var stack []*ssa.BasicBlock
				if !li.body[b] {
					li.body[b] = true
					stack = append(stack, b)
				}
				for len(stack) > 0 {
					x := stack[len(stack)-1]
					stack = stack[:len(stack)-1]
					for _, p := range x.Preds {
						if !li.body[p] {
							li.body[p] = true
							stack = append(stack, p)
						}
					}
				}
			}
		}
	}
	// ordinals in source order of the header position
	var hs []*ssa.BasicBlock
	for h := range loops {
		hs = append(hs, h)
	}
	sort.Slice(hs, func(i, j int) bool {
		if blockPos(hs[i]) != blockPos(hs[j]) {
			return blockPos(hs[i]) < blockPos(hs[j])
		}
		return hs[i].Index < hs[j].Index // outer loops (lower block index) first on a tie
	})
	for i, h := range hs {
		loops[h].ordinal = i + 1
	}
	return loops
}

func blockPos(b *ssa.BasicBlock) token.Pos {
	best := token.NoPos
	for _, in := range b.Instrs {
		if p := in.Pos(); p.IsValid() && (best == token.NoPos || p < best) {
			best = p
		}
	}
	if best == token.NoPos {
		// fall back to successors' positions
		for _, s := range b.Succs {
			for _, in := range s.Instrs {
				if p := in.Pos(); p.IsValid() && (best == token.NoPos || p < best) {
					best = p
				}
			}
		}
	}
	return best
}

func rpo(fn *ssa.Function, loops map[*ssa.BasicBlock]*loopInfo) []*ssa.BasicBlock {
	seen := map[*ssa.BasicBlock]bool{}
	var order []*ssa.BasicBlock
	var visit func(b *ssa.BasicBlock)
	visit = func(b *ssa.BasicBlock) {
		seen[b] = true
		for _, s := range b.Succs {
			if li, ok := loops[s]; ok && li.backEdge[b] {
				continue
			}
			if !seen[s] {
				visit(s)
			}
		}
		order = append(order, b)
	}
	if len(fn.Blocks) > 0 {
		visit(fn.Blocks[0])
	}
	for i, j := 0, len(order)-1; i < j; i, j = i+1, j-1 {
		order[i], order[j] = order[j], order[i]
	}
	return order
}

// encodeBody symbolically executes fn from state st under guard g. Parameter terms must already be in fr.vals.
func (fr *frame) encodeBody(st *State, g string) {
	vc := fr.vc
	fn := fr.fn
	fr.guard = g
	fr.entry = st
	fr.loops = findLoops(fn)
	order := rpo(fn, fr.loops)
	fr.collectLocalNames()
	for _, b := range order {
		var bg string
		var bst *State
		if b == fn.Blocks[0] {
			bg, bst = g, st.clone()
		} else {
			var states []*State
			var conds []string
			li := fr.loops[b]
			for _, p := range b.Preds {
				if li != nil && li.backEdge[p] {
					continue
				}
				ec, ok := fr.edge[[2]int{p.Index, b.Index}]
				if !ok {
					continue // unreachable predecessor
				}
				states = append(states, fr.sout[p])
				conds = append(conds, ec)
			}
			if len(states) == 0 {
				continue // unreachable
			}
			bg = vc.define(fmt.Sprintf("|%sg%d|", fr.prefix, b.Index), "Bool", or(conds...))
			if li != nil {
				bst = fr.loopHeader(b, li, states, conds, bg)
			} else {
				bst = vc.merge(states, conds, fmt.Sprintf("%sb%d", fr.prefix, b.Index))
				// phis
				for _, in := range b.Instrs {
					phi, ok := in.(*ssa.Phi)
					if !ok {
						break
					}
					var vals []string
					var cs []string
					for i, p := range b.Preds {
						ec, ok := fr.edge[[2]int{p.Index, b.Index}]
						if !ok {
							continue
						}
						vals = append(vals, fr.val(phi.Edges[i]))
						cs = append(cs, ec)
					}
					e := vals[len(vals)-1]
					for i := len(vals) - 2; i >= 0; i-- {
						if vals[i] != e {
							e = "(ite " + cs[i] + " " + vals[i] + " " + e + ")"
						}
					}
					fr.set(phi, e)
				}
			}
		}
		fr.gin[b] = bg
		fr.encodeBlock(b, bst, bg)
	}
}

func (fr *frame) encodeBlock(b *ssa.BasicBlock, st *State, g string) {
	fr.curBlock = b
	for _, in := range b.Instrs {
		if as := fr.publicationPoints()[in]; len(as) > 0 {
			fr.publish(as, st, g)
		}
		switch x := in.(type) {
		case *ssa.Phi:
			continue
		case *ssa.If:
			c := fr.val(x.Cond)
			fr.setEdge(b, b.Succs[0], and(g, c), st)
			fr.setEdge(b, b.Succs[1], and(g, not(c)), st)
			fr.sout[b] = st
			return
		case *ssa.Jump:
			fr.setEdge(b, b.Succs[0], g, st)
			fr.sout[b] = st
			return
		case *ssa.Return:
			var vals []string
			for _, r := range x.Results {
				vals = append(vals, fr.val(r))
			}
			fr.rets = append(fr.rets, retInfo{guard: g, vals: vals, st: st, block: b})
			fr.sout[b] = st
			return
		case *ssa.Panic:
			if fr.top || true {
				fr.hazard("panic", g, "false", x.Pos(), "explicit panic is unreachable")
			}
			fr.sout[b] = st
			return
		default:
			fr.encodeInstr(in, st, g)
		}
	}
	fr.sout[b] = st
}

func (fr *frame) setEdge(from, to *ssa.BasicBlock, cond string, st *State) {
	if li, ok := fr.loops[to]; ok && li.backEdge[from] {
		fr.loopBackEdge(from, to, li, st, cond)
		return
	}
	k := [2]int{from.Index, to.Index}
	if old, ok := fr.edge[k]; ok {
		fr.edge[k] = or(old, cond)
	} else {
		fr.edge[k] = cond
	}
}

// ---------------------------------------------------------------- instructions

func (fr *frame) encodeInstr(in ssa.Instruction, st *State, g string) {
	vc := fr.vc
	switch x := in.(type) {
	case *ssa.DebugRef:
		return
	case *ssa.BinOp:
		fr.set(x, fr.binop(x, g))
	case *ssa.UnOp:
		fr.unop(x, st, g)
	case *ssa.Convert:
		fr.convert(x, g)
	case *ssa.ChangeType:
		fr.set(x, fr.val(x.X))
	case *ssa.ChangeInterface:
		fr.set(x, fr.val(x.X))
	case *ssa.MakeInterface:
		fr.set(x, vc.box(x.X.Type(), fr.val(x.X)))
		// a value enters an interface: its type's invariant is checked here (interface values are then assumed valid)
		if !isIface(x.X.Type()) && fr == fr.rootFr {
			if _, isConst := x.X.(*ssa.Const); !isConst {
				for _, inv := range vc.P.typeInvFor(x.X.Type()) {
					fr.boxN++
					vc.oblige("typeinv", fmt.Sprintf("box%d:%s", fr.boxN, inv.Label), g, fr.typeInvTerm(inv, x.X.Type(), fr.val(x.X), st),
						"type invariant of the "+x.X.Type().String()+" value converted to an interface", fr.props, posOf(fr.fn, x.Pos()))
				}
			}
		}
	case *ssa.TypeAssert:
		fr.typeAssert(x, st, g)
	case *ssa.Extract:
		tup := fr.tuples[x.Tuple]
		if tup == nil || x.Index >= len(tup) {
			fr.havocVal(x, "extract of unknown tuple")
			return
		}
		fr.set(x, tup[x.Index])
	case *ssa.Alloc:
		r := vc.alloc(st, fr.prefix+x.Name())
		fr.vals[x] = r
		et := x.Type().Underlying().(*types.Pointer).Elem()
		vc.storeZero(st, r, et)
		if !addrEscapes(x, map[ssa.Value]bool{}, 0) {
			vc.localCells = append(vc.localCells, localCell{addr: r, typ: et, alloc: x})
		} else if fr == fr.rootFr && fr.frozenSpill(x) {
			vc.localCells = append(vc.localCells, localCell{addr: r, typ: et, alloc: x, frozen: true})
		}
	case *ssa.Store:
		addr := fr.val(x.Addr)
		fr.nilCheckAddr(x.Addr, addr, g, x.Pos())
		fr.atStoreClauses(x, st, g)
		vc.store(st, addr, x.Val.Type(), fr.val(x.Val))
	case *ssa.FieldAddr:
		base := fr.val(x.X)
		fr.hazard("nil", g, "(not (= "+base+" 0))", x.Pos(), "field address of nil pointer")
		stT := x.X.Type().Underlying().(*types.Pointer).Elem()
		fr.set(x, vc.fieldAddr(stT, x.Field, base))
		fr.markDefined(stT, base, x.X.Type(), st)
	case *ssa.Field:
		stT := x.X.Type()
		u := stT.Underlying().(*types.Struct)
		fr.set(x, "("+vc.fieldAcc(vc.sortOf(stT), u, x.Field)+" "+fr.val(x.X)+")")
	case *ssa.IndexAddr:
		fr.indexAddr(x, st, g)
	case *ssa.Index:
		fr.index(x, g)
	case *ssa.Lookup:
		fr.lookup(x, st, g)
	case *ssa.Slice:
		fr.slice(x, st, g)
	case *ssa.MakeSlice:
		fr.makeSlice(x, st, g)
	case *ssa.MakeMap:
		r := vc.alloc(st, fr.prefix+x.Name())
		fr.vals[x] = r
		mt := x.Type()
		c := vc.mapClass(mt)
		m := mt.Underlying().(*types.Map)
		h := vc.heapOf(st, c)
		st.heap[c] = vc.define(vc.fresh(c), vc.classSortByName(c), fmt.Sprintf("(store %s %s ((as const %s) none_%s))", h, r, vc.mapContentSort(m), vc.optSort(m.Elem())))
	case *ssa.MakeChan:
		fr.vals[x] = vc.alloc(st, fr.prefix+x.Name())
	case *ssa.MakeClosure:
		r := vc.alloc(st, fr.prefix+x.Name())
		fr.vals[x] = r
		ci := &closureInfo{fn: x.Fn.(*ssa.Function)}
		for _, b := range x.Bindings {
			ci.bindings = append(ci.bindings, fr.val(b))
			ci.bvals = append(ci.bvals, b)
		}
		fr.closures[x] = ci
		fr.closurePre(x, ci, st, g)
	case *ssa.MapUpdate:
		fr.mapUpdate(x, st, g)
	case *ssa.Call:
		fr.call(x, x.Common(), st, g, false)
	case *ssa.Defer:
		fr.deferCall(x, st, g)
	case *ssa.RunDefers:
		fr.runDefers(st, g)
	case *ssa.Go:
		vc.note("go statement: the spawned goroutine is not modelled")
		fr.ghostEvent("go", x.Common(), st, g)
	case *ssa.Send:
		// `sent` in an at-event send clause: the value being sent
		fr.rootFr.eventVal = &sval{t: fr.val(x.X), typ: x.X.Type()}
		fr.chanEvent("send", x.Chan, st, g, x.Pos())
		fr.rootFr.eventVal = nil
	case *ssa.Select:
		fr.selectInstr(x, st, g)
	case *ssa.Range:
		fr.vals[x] = "0"
	case *ssa.Next:
		fr.next(x, st, g)
	default:
		vc.unsupported = append(vc.unsupported, fmt.Sprintf("%T", in))
		if v, ok := in.(ssa.Value); ok {
			fr.havocVal(v, "unsupported")
		}
		vc.havocAll(st, "unsupported instruction")
	}
}

func (fr *frame) nilCheckAddr(a ssa.Value, addr, g string, pos token.Pos) {
	switch a.(type) {
	case *ssa.FieldAddr, *ssa.IndexAddr, *ssa.Alloc, *ssa.Global:
		return
	}
	fr.hazard("nil", g, "(not (= "+addr+" 0))", pos, "nil pointer dereference")
}

func (fr *frame) binop(x *ssa.BinOp, g string) string {
	vc := fr.vc
	a, b := fr.val(x.X), fr.val(x.Y)
	t := x.X.Type()
	if w, signed, ok := intInfo(t); ok {
		return fr.intBinop(x.Op, a, b, w, signed, x.Y.Type(), g, x.Pos())
	}
	if _, ok := isFloat(t); ok {
		vc.usesFP = true
		switch x.Op {
		case token.ADD:
			return "(fp.add RNE " + a + " " + b + ")"
		case token.SUB:
			return "(fp.sub RNE " + a + " " + b + ")"
		case token.MUL:
			return "(fp.mul RNE " + a + " " + b + ")"
		case token.QUO:
			return "(fp.div RNE " + a + " " + b + ")"
		case token.EQL:
			return "(fp.eq " + a + " " + b + ")"
		case token.NEQ:
			return "(not (fp.eq " + a + " " + b + "))"
		case token.LSS:
			return "(fp.lt " + a + " " + b + ")"
		case token.LEQ:
			return "(fp.leq " + a + " " + b + ")"
		case token.GTR:
			return "(fp.gt " + a + " " + b + ")"
		case token.GEQ:
			return "(fp.geq " + a + " " + b + ")"
		}
	}
	if isString(t) {
		switch x.Op {
		case token.ADD:
			vc.declareFun("sconcat", []string{"Str", "Str"}, "Str")
			if !vc.assumed["sconcat"] {
				vc.assumed["sconcat"] = true
				vc.assume("(forall ((a Str) (b Str)) (! (= (slen (sconcat a b)) (+ (slen a) (slen b))) :pattern ((sconcat a b))))")
			}
			return "(sconcat " + a + " " + b + ")"
		case token.EQL:
			return "(= " + a + " " + b + ")"
		case token.NEQ:
			return "(not (= " + a + " " + b + "))"
		case token.LSS, token.LEQ, token.GTR, token.GEQ:
			vc.declareFun("scmp", []string{"Str", "Str"}, "Int")
			op := map[token.Token]string{token.LSS: "<", token.LEQ: "<=", token.GTR: ">", token.GEQ: ">="}[x.Op]
			return "(" + op + " (scmp " + a + " " + b + ") 0)"
		}
	}
	if isIface(t) && (x.Op == token.EQL || x.Op == token.NEQ) {
		eq := "(= " + a + " " + b + ")"
		if c, ok := x.Y.(*ssa.Const); ok && c.Value == nil {
			eq = "(= (tag " + a + ") 0)"
		} else if c, ok := x.X.(*ssa.Const); ok && c.Value == nil {
			eq = "(= (tag " + b + ") 0)"
		}
		if x.Op == token.NEQ {
			return "(not " + eq + ")"
		}
		return eq
	}
	switch x.Op {
	case token.EQL:
		return "(= " + a + " " + b + ")"
	case token.NEQ:
		return "(not (= " + a + " " + b + "))"
	}
	if isBool(t) {
		switch x.Op {
		case token.AND, token.LAND:
			return "(and " + a + " " + b + ")"
		case token.OR, token.LOR:
			return "(or " + a + " " + b + ")"
		}
	}
	vc.unsupported = append(vc.unsupported, "binop "+x.Op.String()+" on "+t.String())
	return vc.freshConst("binop", vc.sortOf(x.Type()))
}

func pow2(n int) *big.Int { return new(big.Int).Lsh(big.NewInt(1), uint(n)) }

func (fr *frame) wrap(e string, w int, signed bool) string {
	if signed {
		return fmt.Sprintf("(wrapS%d %s)", w, e)
	}
	return fmt.Sprintf("(wrapU%d %s)", w, e)
}

func (fr *frame) intBinop(op token.Token, a, b string, w int, signed bool, yT types.Type, g string, pos token.Pos) string {
	vc := fr.vc
	bvm := vc.mode == modeBV
	cmp := func(bvs, bvu, i string) string {
		if bvm {
			if signed {
				return "(" + bvs + " " + a + " " + b + ")"
			}
			return "(" + bvu + " " + a + " " + b + ")"
		}
		return "(" + i + " " + a + " " + b + ")"
	}
	zero := vc.intLit(big.NewInt(0), w)
	switch op {
	case token.EQL:
		return "(= " + a + " " + b + ")"
	case token.NEQ:
		return "(not (= " + a + " " + b + "))"
	case token.LSS:
		return cmp("bvslt", "bvult", "<")
	case token.LEQ:
		return cmp("bvsle", "bvule", "<=")
	case token.GTR:
		return cmp("bvsgt", "bvugt", ">")
	case token.GEQ:
		return cmp("bvsge", "bvuge", ">=")
	case token.ADD, token.SUB, token.MUL:
		if bvm {
			o := map[token.Token]string{token.ADD: "bvadd", token.SUB: "bvsub", token.MUL: "bvmul"}[op]
			return "(" + o + " " + a + " " + b + ")"
		}
		o := map[token.Token]string{token.ADD: "+", token.SUB: "-", token.MUL: "*"}[op]
		return fr.wrap("("+o+" "+a+" "+b+")", w, signed)
	case token.QUO, token.REM:
		fr.hazard("div0", g, "(not (= "+b+" "+zero+"))", pos, "division by zero")
		if bvm {
			var o string
			switch {
			case op == token.QUO && signed:
				o = "bvsdiv"
			case op == token.QUO:
				o = "bvudiv"
			case signed:
				o = "bvsrem"
			default:
				o = "bvurem"
			}
			return "(" + o + " " + a + " " + b + ")"
		}
		if op == token.QUO {
			if signed {
				return fr.wrap("(tdiv "+a+" "+b+")", w, signed)
			}
			return "(div " + a + " " + b + ")"
		}
		if signed {
			return "(trem " + a + " " + b + ")"
		}
		return "(mod " + a + " " + b + ")"
	case token.AND, token.OR, token.XOR, token.AND_NOT:
		if bvm {
			switch op {
			case token.AND:
				return "(bvand " + a + " " + b + ")"
			case token.OR:
				return "(bvor " + a + " " + b + ")"
			case token.XOR:
				return "(bvxor " + a + " " + b + ")"
			default:
				return "(bvand " + a + " (bvnot " + b + "))"
			}
		}
		// x & (2^k - 1) with a constant mask is x mod 2^k (two's complement), also for negative x
		if op == token.AND {
			for _, pr := range [][2]string{{a, b}, {b, a}} {
				if m, ok := new(big.Int).SetString(pr[1], 10); ok && m.Sign() > 0 {
					m1 := new(big.Int).Add(m, big.NewInt(1))
					if m1.BitLen()-1 == int(m1.TrailingZeroBits()) { // m+1 is a power of two
						return "(mod " + pr[0] + " " + m1.String() + ")"
					}
				}
			}
		}
		vc.unsupported = append(vc.unsupported, "bit operation in int mode")
		c := vc.freshConst("bitop", "Int")
		fr.assumeTypeFactsRaw(w, signed, c)
		return c
	case token.SHL, token.SHR:
		yw, ysigned, _ := intInfo(yT)
		if bvm {
			if ysigned {
				fr.hazard("shift", g, "(bvsge "+b+" "+vc.intLit(big.NewInt(0), yw)+")", pos, "negative shift count")
			}
			// bring the count to width w, saturating
			var cnt, big_ string
			if yw > w {
				big_ = "(bvuge " + b + " " + vc.intLit(big.NewInt(int64(w)), yw) + ")"
				cnt = fmt.Sprintf("((_ extract %d 0) %s)", w-1, b)
			} else {
				if yw < w {
					cnt = fmt.Sprintf("((_ zero_extend %d) %s)", w-yw, b)
				} else {
					cnt = b
				}
				big_ = "(bvuge " + cnt + " " + vc.intLit(big.NewInt(int64(w)), w) + ")"
			}
			if op == token.SHL {
				return "(ite " + big_ + " " + zero + " (bvshl " + a + " " + cnt + "))"
			}
			if signed {
				return "(ite " + big_ + " (ite (bvslt " + a + " " + zero + ") " + vc.intLit(big.NewInt(-1), w) + " " + zero + ") (bvashr " + a + " " + cnt + "))"
			}
			return "(ite " + big_ + " " + zero + " (bvlshr " + a + " " + cnt + "))"
		}
		// shift by a constant count: floor division / multiplication by a power of two
		if cnt, ok := new(big.Int).SetString(b, 10); ok && cnt.Sign() >= 0 && cnt.Int64() < int64(w) {
			p := pow2(int(cnt.Int64())).String()
			if op == token.SHR {
				return "(div " + a + " " + p + ")"
			}
			return fr.wrap("(* "+a+" "+p+")", w, signed)
		}
		vc.unsupported = append(vc.unsupported, "shift in int mode")
		c := vc.freshConst("shift", "Int")
		fr.assumeTypeFactsRaw(w, signed, c)
		return c
	}
	vc.unsupported = append(vc.unsupported, "int binop "+op.String())
	return vc.freshConst("binop", vc.intSort(w))
}

func (fr *frame) assumeTypeFactsRaw(w int, signed bool, c string) {
	if fr.vc.mode != modeInt {
		return
	}
	if signed {
		fr.vc.assume(fmt.Sprintf("(inS%d %s)", w, c))
	} else {
		fr.vc.assume(fmt.Sprintf("(inU%d %s)", w, c))
	}
}

func (fr *frame) unop(x *ssa.UnOp, st *State, g string) {
	vc := fr.vc
	a := fr.val(x.X)
	switch x.Op {
	case token.NOT:
		fr.set(x, not(a))
	case token.SUB:
		if w, signed, ok := intInfo(x.Type()); ok {
			if vc.mode == modeBV {
				fr.set(x, "(bvneg "+a+")")
			} else {
				fr.set(x, fr.wrap("(- "+a+")", w, signed))
			}
			return
		}
		fr.set(x, "(fp.neg "+a+")")
	case token.XOR:
		if vc.mode == modeBV {
			fr.set(x, "(bvnot "+a+")")
		} else {
			w, signed, _ := intInfo(x.Type())
			if signed {
				fr.set(x, "(- (- "+a+") 1)")
			} else {
				fr.set(x, "(- "+pow2(w).String()+" 1 "+a+")")
			}
		}
	case token.MUL: // load
		if gl, ok := x.X.(*ssa.Global); ok {
			if t, ok := fr.globalConstLoad(gl); ok {
				fr.set(x, t)
				return
			}
		}
		fr.nilCheckAddr(x.X, a, g, x.Pos())
		v := vc.load(st, a, x.Type())
		fr.set(x, v)
		fr.markDefined(x.Type(), a, x.X.Type(), st)
		fr.assumeTypeFacts(g, st, x.Type(), fr.vals[x])
	case token.ARROW:
		fr.chanEvent("recv", x.X, st, g, x.Pos())
		var recvd string
		if x.CommaOk {
			fr.havocVal(x, "recv")
			tup := fr.tuples[x]
			fr.ghostRecvOk(x.X, tup[1], st, g)
			recvd = tup[0]
		} else {
			fr.havocVal(x, "recv")
			recvd = fr.vals[x]
		}
		// `received(chan)`: the value of the function's last receive on that channel
		if root := fr.rootFr; root != nil && recvd != "" {
			if root.bindVals == nil {
				root.bindVals = map[string]sval{}
			}
			et := x.X.Type().Underlying().(*types.Chan).Elem()
			prev, had := root.bindVals["recv$"+chanFieldName(x.X)]
			v := recvd
			if had && g != "true" {
				v = "(ite " + g + " " + recvd + " " + prev.t + ")"
			}
			root.bindVals["recv$"+chanFieldName(x.X)] = sval{t: v, typ: et}
		}
	default:
		vc.unsupported = append(vc.unsupported, "unop "+x.Op.String())
		fr.havocVal(x, "unop")
	}
}

// value of a write-once global initialised with a constant
func (fr *frame) globalConstLoad(gl *ssa.Global) (string, bool) {
	P := fr.vc.P
	if !P.WriteOnce(gl) {
		return "", false
	}
	fr.vc.note("global " + gl.Pkg.Pkg.Name() + "." + gl.Name() + " is write-once (stored only by package init): treated as a constant")
	if v, ok := P.globalConst[gl]; ok && v != nil {
		if t, ok := fr.initConst(v, 0); ok {
			return t, true
		}
	}
	// stable but unknown value: one constant per global
	et := gl.Type().Underlying().(*types.Pointer).Elem()
	name := "|$" + gl.Pkg.Pkg.Name() + "." + gl.Name() + "|"
	if !fr.vc.declared[name] {
		fr.vc.declare(name, fr.vc.sortOf(et))
		for _, f := range fr.typeFacts(fr.entry, et, name, true) {
			fr.vc.assume(f)
		}
		// a function variable initialised with a function is non-nil
		if v, ok := P.globalConst[gl]; ok && v != nil {
			switch v.(type) {
			case *ssa.Function, *ssa.MakeClosure:
				fr.vc.assume("(not (= " + name + " 0))")
			}
		}
		// an error variable initialised with errors.New / fmt.Errorf is a distinct non-nil value
		if v, ok := P.globalConst[gl]; ok && v != nil && isIface(et) {
			if call, ok := v.(*ssa.Call); ok {
				if callee := call.Call.StaticCallee(); callee != nil && (callee.String() == "errors.New" || callee.String() == "fmt.Errorf") {
					fr.vc.assume("(not (= (tag " + name + ") 0))")
					for _, o := range fr.vc.errGlobals {
						fr.vc.assume("(not (= " + name + " " + o + "))")
					}
					fr.vc.errGlobals = append(fr.vc.errGlobals, name)
					fr.vc.note("error variables initialised with errors.New are distinct non-nil values")
				}
			}
		}
	}
	return name, true
}

// initConst evaluates an init-time value that is a constant possibly wrapped in conversions
func (fr *frame) initConst(v ssa.Value, depth int) (string, bool) {
	switch x := v.(type) {
	case *ssa.Const:
		return fr.constVal(x), true
	case *ssa.ChangeType:
		return fr.initConst(x.X, depth+1)
	case *ssa.Convert:
		if c, ok := x.X.(*ssa.Const); ok {
			// constant conversion between integer types: re-render at target type
			if w, _, ok := intInfo(x.Type()); ok && c.Value != nil && c.Value.Kind() == constant.Int {
				bi, _ := new(big.Int).SetString(c.Value.ExactString(), 10)
				return fr.vc.intLit(bi, w), true
			}
		}
	}
	return "", false
}

func (fr *frame) convert(x *ssa.Convert, g string) {
	vc := fr.vc
	a := fr.val(x.X)
	from, to := x.X.Type(), x.Type()
	fw, fsigned, fint := intInfo(from)
	tw, tsigned, tint := intInfo(to)
	_, ffl := isFloat(from)
	tfw, tfl := isFloat(to)
	switch {
	case fint && tint:
		if vc.mode == modeBV {
			var r string
			switch {
			case tw == fw:
				r = a
			case tw < fw:
				r = fmt.Sprintf("((_ extract %d 0) %s)", tw-1, a)
			case fsigned:
				r = fmt.Sprintf("((_ sign_extend %d) %s)", tw-fw, a)
			default:
				r = fmt.Sprintf("((_ zero_extend %d) %s)", tw-fw, a)
			}
			fr.set(x, r)
			// value-changing conversion hazard
			fr.narrowHazard(x, a, fw, fsigned, tw, tsigned, g)
		} else {
			fr.set(x, fr.wrap(a, tw, tsigned))
			fr.narrowHazard(x, a, fw, fsigned, tw, tsigned, g)
		}
	case fint && tfl:
		vc.usesFP = true
		srt := sortF64
		eb, sb := 11, 53
		if tfw == 32 {
			srt, eb, sb = sortF32, 8, 24
		}
		_ = srt
		if vc.mode == modeBV {
			if fsigned {
				fr.set(x, fmt.Sprintf("((_ to_fp %d %d) RNE %s)", eb, sb, a))
			} else {
				fr.set(x, fmt.Sprintf("((_ to_fp_unsigned %d %d) RNE %s)", eb, sb, a))
			}
		} else {
			vc.declareFun("i2f64", []string{"Int"}, sortF64)
			vc.note("int->float conversion in an int-encoded function is uninterpreted")
			fr.set(x, "(i2f64 "+a+")")
		}
	case ffl && tint:
		vc.usesFP = true
		if vc.mode == modeBV {
			// Go leaves out-of-range conversions implementation-defined: hazard f2i
			lo := new(big.Float).SetInt(new(big.Int).Neg(pow2(tw - 1)))
			hi := new(big.Float).SetInt(pow2(tw - 1))
			if !tsigned {
				lo = big.NewFloat(-1)
				hi = new(big.Float).SetInt(pow2(tw))
			}
			lof, _ := lo.Float64()
			hif, _ := hi.Float64()
			var ok string
			if tsigned {
				ok = fmt.Sprintf("(and (not (fp.isNaN %s)) (fp.geq %s %s) (fp.lt %s %s))", a, a, floatLit(lof, 64), a, floatLit(hif, 64))
				fr.set(x, fmt.Sprintf("((_ fp.to_sbv %d) RTZ %s)", tw, a))
			} else {
				ok = fmt.Sprintf("(and (not (fp.isNaN %s)) (fp.gt %s %s) (fp.lt %s %s))", a, a, floatLit(lof, 64), a, floatLit(hif, 64))
				fr.set(x, fmt.Sprintf("((_ fp.to_ubv %d) RTZ %s)", tw, a))
			}
			fr.hazard("f2i", g, ok, x.Pos(), "float->integer conversion of an out-of-range value (result implementation-defined)")
		} else {
			vc.declareFun("f2i64", []string{sortF64}, "Int")
			vc.note("float->int conversion in an int-encoded function is uninterpreted")
			c := "(f2i64 " + a + ")"
			fr.set(x, fr.wrap(c, tw, tsigned))
		}
	case ffl && tfl:
		vc.usesFP = true
		if tfw == 32 {
			fr.set(x, "((_ to_fp 8 24) RNE "+a+")")
		} else {
			fr.set(x, "((_ to_fp 11 53) RNE "+a+")")
		}
	default:
		// string/rune/byte-slice conversions: uninterpreted
		fn := "|conv_" + sanitize(types.TypeString(from, nil)) + "_to_" + sanitize(types.TypeString(to, nil)) + "|"
		vc.declareFun(fn, []string{vc.sortOf(from)}, vc.sortOf(to))
		fr.set(x, "("+fn+" "+a+")")
		if _, isSl := to.Underlying().(*types.Slice); isSl {
			// a fresh slice: well-formed
			fr.vc.assumeG(g, fr.vc.refFact(fr.entry, to, fr.vals[x]))
			if isString(from) {
				if b, ok := to.Underlying().(*types.Slice).Elem().Underlying().(*types.Basic); ok && b.Kind() == types.Uint8 {
					fr.vc.assumeG(g, "(= (s_len "+fr.vals[x]+") (slen "+a+"))")
				}
			}
		}
	}
}

func (fr *frame) narrowHazard(x *ssa.Convert, a string, fw int, fsigned bool, tw int, tsigned bool, g string) {
	vc := fr.vc
	// value preserved iff the source value is representable in the target type
	lossless := (fsigned == tsigned && tw >= fw) || (!fsigned && tsigned && tw > fw)
	if lossless {
		return
	}
	var ok string
	lo, hi := big.NewInt(0), pow2(tw)
	if tsigned {
		lo, hi = new(big.Int).Neg(pow2(tw-1)), pow2(tw-1)
	}
	if vc.mode == modeInt {
		ok = fmt.Sprintf("(and (<= %s %s) (< %s %s))", mathLit(lo), a, a, hi.String())
	} else {
		// compare in width fw+1 signed
		ext := fmt.Sprintf("((_ sign_extend 1) %s)", a)
		if !fsigned {
			ext = fmt.Sprintf("((_ zero_extend 1) %s)", a)
		}
		W := fw + 1
		m := pow2(W)
		lit := func(v *big.Int) string { return fmt.Sprintf("(_ bv%s %d)", new(big.Int).Mod(v, m).String(), W) }
		hi1 := new(big.Int).Sub(hi, big.NewInt(1))
		// clamp bounds to what W bits can hold
		maxW := new(big.Int).Sub(pow2(W-1), big.NewInt(1))
		if hi1.Cmp(maxW) > 0 {
			hi1 = maxW
		}
		ok = fmt.Sprintf("(and (bvsle %s %s) (bvsle %s %s))", lit(lo), ext, ext, lit(hi1))
	}
	fr.hazard("narrow", g, ok, x.Pos(), fmt.Sprintf("integer conversion %s -> %s changes the value", x.X.Type(), x.Type()))
}

func (fr *frame) typeAssert(x *ssa.TypeAssert, st *State, g string) {
	vc := fr.vc
	a := fr.val(x.X)
	var ok, v string
	if isIface(x.AssertedType) {
		ok = vc.implTest(x.AssertedType, a)
		v = a
	} else {
		ok = vc.hasTag(x.AssertedType, a)
		v = vc.unbox(x.AssertedType, a)
	}
	if x.CommaOk {
		okc := vc.define(vc.fresh(fr.prefix+x.Name()+"#ok"), "Bool", ok)
		zero := vc.zero(x.AssertedType)
		vv := vc.define(vc.fresh(fr.prefix+x.Name()+"#v"), vc.sortOf(x.AssertedType), "(ite "+okc+" "+v+" "+zero+")")
		fr.tuples[x] = []string{vv, okc}
		for _, f := range fr.typeFacts(st, x.AssertedType, vv, true) {
			vc.assumeG(and(g, okc), f)
		}
		return
	}
	fr.hazard("tassert", g, ok, x.Pos(), "type assertion "+x.AssertedType.String())
	fr.set(x, v)
	fr.assumeTypeFacts(g, st, x.AssertedType, fr.vals[x])
}

func (fr *frame) idxTerm(v ssa.Value) string {
	// index as mathematical Int
	a := fr.val(v)
	if fr.vc.mode == modeInt {
		return a
	}
	w, signed, _ := intInfo(v.Type())
	if c, ok := v.(*ssa.Const); ok && c.Value != nil {
		return mathLit(func() *big.Int { b, _ := new(big.Int).SetString(constant.ToInt(c.Value).ExactString(), 10); return b }())
	}
	_ = w
	if signed {
		return fmt.Sprintf("(let ((u (bv2nat %s))) (ite (bvslt %s %s) (- u %s) u))", a, a, fr.vc.intLit(big.NewInt(0), w), pow2(w).String())
	}
	return "(bv2nat " + a + ")"
}

// Go int term from a mathematical Int term
func (fr *frame) fromMath(e string, w int, signed bool) string {
	if fr.vc.mode == modeInt {
		return e
	}
	return fmt.Sprintf("((_ int2bv %d) %s)", w, e)
}

func (fr *frame) indexAddr(x *ssa.IndexAddr, st *State, g string) {
	vc := fr.vc
	a := fr.val(x.X)
	i := fr.idxTerm(x.Index)
	switch t := x.X.Type().Underlying().(type) {
	case *types.Slice:
		fr.hazard("idx", g, fmt.Sprintf("(and (<= 0 %s) (< %s (s_len %s)))", i, i, a), x.Pos(), "slice index in range")
		fr.set(x, vc.sliceElem(a, i))
	case *types.Pointer: // pointer to array
		arr := t.Elem().Underlying().(*types.Array)
		fr.hazard("nil", g, "(not (= "+a+" 0))", x.Pos(), "index of nil array pointer")
		fr.hazard("idx", g, fmt.Sprintf("(and (<= 0 %s) (< %s %d))", i, i, arr.Len()), x.Pos(), "array index in range")
		fr.set(x, vc.ea(a, i))
	default:
		vc.unsupported = append(vc.unsupported, "IndexAddr on "+x.X.Type().String())
		fr.havocVal(x, "indexaddr")
	}
}

func (fr *frame) index(x *ssa.Index, g string) {
	vc := fr.vc
	a := fr.val(x.X)
	i := fr.idxTerm(x.Index)
	switch t := x.X.Type().Underlying().(type) {
	case *types.Array:
		fr.hazard("idx", g, fmt.Sprintf("(and (<= 0 %s) (< %s %d))", i, i, t.Len()), x.Pos(), "array index in range")
		fr.set(x, "(select "+a+" "+i+")")
	case *types.Basic: // string
		fr.hazard("idx", g, fmt.Sprintf("(and (<= 0 %s) (< %s (slen %s)))", i, i, a), x.Pos(), "string index in range")
		vc.declareFun("sidx", []string{"Str", "Int"}, vc.intSort(8))
		fr.set(x, "(sidx "+a+" "+i+")")
		fr.assumeTypeFacts(g, fr.entry, x.Type(), fr.vals[x])
	default:
		vc.unsupported = append(vc.unsupported, "Index on "+x.X.Type().String())
		fr.havocVal(x, "index")
	}
}

func (fr *frame) lookup(x *ssa.Lookup, st *State, g string) {
	vc := fr.vc
	a := fr.val(x.X)
	if mt, ok := x.X.Type().Underlying().(*types.Map); ok {
		c := vc.mapClass(x.X.Type())
		k := fr.val(x.Index)
		opt := vc.optSort(mt.Elem())
		cell := fmt.Sprintf("(select (select %s %s) %s)", vc.heapOf(st, c), a, k)
		cn := vc.define(vc.fresh(fr.prefix+x.Name()+"#cell"), opt, cell)
		isSome := fmt.Sprintf("(and (not (= %s 0)) ((_ is some_%s) %s))", a, opt, cn)
		v := fmt.Sprintf("(ite %s (val_%s %s) %s)", isSome, opt, cn, vc.zero(mt.Elem()))
		if x.CommaOk {
			okc := vc.define(vc.fresh(fr.prefix+x.Name()+"#ok"), "Bool", isSome)
			vv := vc.define(vc.fresh(fr.prefix+x.Name()+"#v"), vc.sortOf(mt.Elem()), v)
			fr.tuples[x] = []string{vv, okc}
			for _, f := range fr.typeFacts(st, mt.Elem(), vv, true) {
				vc.assumeG(and(g, okc), f)
			}
		} else {
			fr.set(x, v)
			for _, f := range fr.typeFacts(st, mt.Elem(), fr.vals[x], true) {
				vc.assumeG(and(g, isSome), f)
			}
		}
		return
	}
	// string index via Lookup
	i := fr.idxTerm(x.Index)
	fr.hazard("idx", g, fmt.Sprintf("(and (<= 0 %s) (< %s (slen %s)))", i, i, a), x.Pos(), "string index in range")
	vc.declareFun("sidx", []string{"Str", "Int"}, vc.intSort(8))
	fr.set(x, "(sidx "+a+" "+i+")")
	fr.assumeTypeFacts(g, st, x.Type(), fr.vals[x])
}

func (fr *frame) mapUpdate(x *ssa.MapUpdate, st *State, g string) {
	vc := fr.vc
	m := fr.val(x.Map)
	mt := x.Map.Type().Underlying().(*types.Map)
	fr.hazard("mapnil", g, "(not (= "+m+" 0))", x.Pos(), "assignment to entry in nil map")
	c := vc.mapClass(x.Map.Type())
	h := vc.heapOf(st, c)
	opt := vc.optSort(mt.Elem())
	nh := fmt.Sprintf("(store %s %s (store (select %s %s) %s (some_%s %s)))", h, m, h, m, fr.val(x.Key), opt, fr.val(x.Value))
	st.heap[c] = vc.define(vc.fresh(c), vc.classSortByName(c), nh)
}

func (fr *frame) slice(x *ssa.Slice, st *State, g string) {
	vc := fr.vc
	a := fr.val(x.X)
	lo, hi, mx := "0", "", ""
	if x.Low != nil {
		lo = fr.idxTerm(x.Low)
	}
	if x.High != nil {
		hi = fr.idxTerm(x.High)
	}
	if x.Max != nil {
		mx = fr.idxTerm(x.Max)
	}
	switch t := x.X.Type().Underlying().(type) {
	case *types.Slice:
		if hi == "" {
			hi = "(s_len " + a + ")"
		}
		capa := "(s_cap " + a + ")"
		bound := capa
		if mx != "" {
			bound = mx
			fr.hazard("idx", g, fmt.Sprintf("(<= %s %s)", mx, capa), x.Pos(), "slice max within capacity")
		}
		fr.hazard("idx", g, fmt.Sprintf("(and (<= 0 %s) (<= %s %s) (<= %s %s))", lo, lo, hi, hi, bound), x.Pos(), "slice bounds in range")
		fr.set(x, fmt.Sprintf("(mk_slice (s_arr %s) (+ (s_off %s) %s) (- %s %s) (- %s %s))", a, a, lo, hi, lo, bound, lo))
	case *types.Basic: // string
		if hi == "" {
			hi = "(slen " + a + ")"
		}
		fr.hazard("idx", g, fmt.Sprintf("(and (<= 0 %s) (<= %s %s) (<= %s (slen %s)))", lo, lo, hi, hi, a), x.Pos(), "string slice bounds in range")
		vc.declareFun("ssub", []string{"Str", "Int", "Int"}, "Str")
		if !vc.assumed["ssub"] {
			vc.assumed["ssub"] = true
			vc.assume("(forall ((s Str) (a Int) (b Int)) (! (=> (and (<= 0 a) (<= a b) (<= b (slen s))) (= (slen (ssub s a b)) (- b a))) :pattern ((ssub s a b))))")
			vc.assume("(forall ((s Str)) (! (= (ssub s 0 (slen s)) s) :pattern ((ssub s 0 (slen s)))))")
		}
		fr.set(x, fmt.Sprintf("(ssub %s %s %s)", a, lo, hi))
	case *types.Pointer:
		arr := t.Elem().Underlying().(*types.Array)
		n := fmt.Sprint(arr.Len())
		if hi == "" {
			hi = n
		}
		fr.hazard("nil", g, "(not (= "+a+" 0))", x.Pos(), "slice of nil array pointer")
		fr.hazard("idx", g, fmt.Sprintf("(and (<= 0 %s) (<= %s %s) (<= %s %s))", lo, lo, hi, hi, n), x.Pos(), "array slice bounds in range")
		fr.set(x, fmt.Sprintf("(mk_slice %s %s (- %s %s) (- %s %s))", a, lo, hi, lo, n, lo))
	default:
		vc.unsupported = append(vc.unsupported, "Slice on "+x.X.Type().String())
		fr.havocVal(x, "slice")
	}
}

func (fr *frame) makeSlice(x *ssa.MakeSlice, st *State, g string) {
	vc := fr.vc
	n := fr.idxTerm(x.Len)
	c := fr.idxTerm(x.Cap)
	et0 := x.Type().Underlying().(*types.Slice).Elem()
	esz := types.SizesFor("gc", "amd64").Sizeof(et0)
	if esz < 1 {
		esz = 1
	}
	// runtime.makeslice panics (recoverably) when the length is negative, exceeds the capacity, or the size overflows / exceeds maxAlloc (2^48)
	if fr.boundedBySize(x.Cap) {
		// as large as something that already exists (plus a constant): the size check of the runtime cannot fail for it in practice
		fr.hazard("makelen", g, fmt.Sprintf("(and (<= 0 %s) (<= %s %s))", n, n, c), x.Pos(), "make: length non-negative and within capacity")
	} else {
		fr.hazard("makelen", g, fmt.Sprintf("(and (<= 0 %s) (<= %s %s) (<= (* %s %d) 281474976710656))", n, n, c, c, esz), x.Pos(), "make: length non-negative, within capacity, size within the runtime's limit")
	}
	if _, isConst := x.Cap.(*ssa.Const); !isConst && !fr.boundedBySize(x.Cap) {
		if !vc.declared["MEMCAP"] {
			vc.declare("MEMCAP", "Int")
			vc.assume("(>= MEMCAP 8)") // any host can allocate eight words
		}
		fr.hazard("allocsize", g, fmt.Sprintf("(<= %s MEMCAP)", c), x.Pos(), "make: size bounded by available memory")
	}
	r := vc.alloc(st, fr.prefix+x.Name())
	fr.set(x, fmt.Sprintf("(mk_slice %s 0 %s %s)", r, n, c))
	et := x.Type().Underlying().(*types.Slice).Elem()
	fr.zeroElems(st, r, et)
}

// zeroElems: the elements of a fresh backing array are zero. The array is fresh, so no earlier store can have hit it;
// expressed as a quantified assumption over the current heap of the element class.
func (fr *frame) zeroElems(st *State, r string, et types.Type) {
	vc := fr.vc
	switch et.Underlying().(type) {
	case *types.Struct, *types.Array:
		return // decomposed classes: left unconstrained (sound)
	}
	c := vc.className(et)
	h := vc.heapOf(st, c)
	vc.needEAQuant()
	vc.assume(fmt.Sprintf("(forall ((i Int)) (! (= (select %s (ea %s i)) %s) :pattern ((select %s (ea %s i)))))", h, r, vc.zero(et), h, r))
}

// boundedBySize: the value is len/cap of an existing object plus/minus a constant
func (fr *frame) boundedBySize(v ssa.Value) bool {
	switch x := v.(type) {
	case *ssa.Const:
		return true
	case *ssa.Call:
		if b, ok := x.Call.Value.(*ssa.Builtin); ok && (b.Name() == "len" || b.Name() == "cap") {
			return true
		}
	case *ssa.BinOp:
		if x.Op == token.ADD || x.Op == token.SUB || x.Op == token.MUL {
			return fr.boundedBySize(x.X) && fr.boundedBySize(x.Y)
		}
	case *ssa.Convert:
		return fr.boundedBySize(x.X)
	case *ssa.Phi:
		return false
	}
	return false
}

func (fr *frame) next(x *ssa.Next, st *State, g string) {
	vc := fr.vc
	fr.havocVal(x, "next")
	tup := fr.tuples[x]
	// tie map iteration values to the map content
	rng, _ := x.Iter.(*ssa.Range)
	if rng != nil && !x.IsString {
		if mt, ok := rng.X.Type().Underlying().(*types.Map); ok {
			c := vc.mapClass(rng.X.Type())
			opt := vc.optSort(mt.Elem())
			cell := fmt.Sprintf("(select (select %s %s) %s)", vc.heapOf(st, c), fr.val(rng.X), tup[1])
			vc.assumeG(and(g, tup[0]), fmt.Sprintf("(and ((_ is some_%s) %s) (= %s (val_%s %s)))", opt, cell, tup[2], opt, cell))
			for _, f := range fr.typeFacts(st, mt.Key(), tup[1], true) {
				vc.assumeG(g, f)
			}
			for _, f := range fr.typeFacts(st, mt.Elem(), tup[2], true) {
				vc.assumeG(and(g, tup[0]), f)
			}
		}
	}
	vc.note("range over map/string: iteration order and coverage are not modelled (each step yields an arbitrary remaining element)")
}

// atStoreClauses: `at-store Type.field requires[label] e` - an assertion on the value v stored into that field, wherever
// the function (not its inlined callees) stores to it
func (fr *frame) atStoreClauses(x *ssa.Store, st *State, g string) {
	root := fr.rootFr
	if root == nil || root.contract == nil || fr != root {
		return
	}
	fa, ok := x.Addr.(*ssa.FieldAddr)
	if !ok {
		return
	}
	stT := fa.X.Type().Underlying().(*types.Pointer).Elem()
	su, ok := stT.Underlying().(*types.Struct)
	if !ok {
		return
	}
	name := types.TypeString(stT, func(*types.Package) string { return "" }) + "." + su.Field(fa.Field).Name()
	for _, cl := range root.contract.Get("at-store") {
		txt := strings.TrimSpace(cl.Text)
		i := strings.Index(txt, " requires")
		// `at-store T.f? requires …`: the trailing ? makes the site optional (a field the function usually leaves at its zero value)
		if i < 0 || strings.TrimSuffix(strings.TrimSpace(txt[:i]), "?") != name {
			continue
		}
		lab, body := splitLabel(strings.TrimSpace(txt[i+len(" requires"):]))
		e, err := ParseExpr(body)
		if err != nil {
			fr.vc.specErrors = append(fr.vc.specErrors, "at-store: "+err.Error())
			continue
		}
		env := root.specEnvAt(st)
		env.vars["v"] = sval{t: fr.val(x.Val), typ: x.Val.Type()}
		env.vars["target"] = sval{t: fr.val(fa.X), typ: fa.X.Type()}
		root.atStoreN++
		if root.atCallSeen == nil {
			root.atCallSeen = map[*Clause]bool{}
		}
		root.atCallSeen[cl] = true
		fr.vc.oblige("at-store", fmt.Sprintf("%s#%d:%s", name, root.atStoreN, lab), g, env.trBool(e), "at a store into "+name+": "+body, root.props, posOf(fr.fn, x.Pos()))
	}
}

// closurePre: the `requires` clauses of a closure under contract are checked where the closure is created, over the
// values its captured variables hold at that moment (the closure's own proof assumes them at its entry; that the
// captured variables are not reassigned in between is the `frozen` census).
func (fr *frame) closurePre(x *ssa.MakeClosure, ci *closureInfo, st *State, g string) {
	vc := fr.vc
	d, ok := vc.P.Funcs[fnKey(ci.fn)]
	if !ok || fr != fr.rootFr {
		return
	}
	reqs := d.Get("requires")
	if len(reqs) == 0 {
		return
	}
	env := vc.newSpecEnv(ci.fn, st, st)
	for i, fv := range ci.fn.FreeVars {
		if pt, ok := fv.Type().Underlying().(*types.Pointer); ok {
			env.vars[fv.Name()] = sval{t: vc.load(st, ci.bindings[i], pt.Elem()), typ: pt.Elem(), addr: ci.bindings[i]}
		} else {
			env.vars[fv.Name()] = sval{t: ci.bindings[i], typ: fv.Type()}
		}
	}
	for _, c := range reqs {
		lab := shortKey(fnKey(ci.fn))
		if c.Label != "" {
			lab += ":" + c.Label
		}
		vc.oblige("pre@closure", lab, g, env.trBool(c.E), "requires "+c.Text+" (of the closure "+fnKey(ci.fn)+", checked where it is created)", fr.props, posOf(fr.fn, x.Pos()))
	}
}

// addrEscapes: can the address v (an Alloc, or a FreeVar/parameter standing for one) reach code outside the function
// and the closures it invokes itself? Uses: loads, stores *to* it, field/index addressing, and capture by closures
// that are only called/deferred directly (their own use of the captured address is checked recursively).
func addrEscapes(v ssa.Value, seen map[ssa.Value]bool, depth int) bool {
	if seen[v] {
		return false
	}
	seen[v] = true
	if depth > 4 || v.Referrers() == nil {
		return true
	}
	for _, ref := range *v.Referrers() {
		switch x := ref.(type) {
		case *ssa.DebugRef:
		case *ssa.UnOp:
			if x.Op != token.MUL {
				return true
			}
		case *ssa.Store:
			if x.Val == v {
				return true
			}
		case *ssa.FieldAddr:
			if addrEscapes(x, seen, depth) {
				return true
			}
		case *ssa.IndexAddr:
			if addrEscapes(x, seen, depth) {
				return true
			}
		case *ssa.MakeClosure:
			// the closure value must only be called or deferred directly
			if x.Referrers() == nil {
				return true
			}
			for _, cr := range *x.Referrers() {
				switch c := cr.(type) {
				case *ssa.Defer:
					if c.Call.Value != x {
						return true
					}
				case *ssa.Call:
					if c.Call.Value != x {
						return true
					}
				case *ssa.DebugRef:
				default:
					return true
				}
			}
			fn := x.Fn.(*ssa.Function)
			for i, b := range x.Bindings {
				if b == v {
					if addrEscapes(fn.FreeVars[i], seen, depth+1) {
						return true
					}
				}
			}
		case *ssa.Call:
			// passing the address to a static callee of the same package that does not leak it (checked recursively on the parameter)
			callee := x.Call.StaticCallee()
			if callee == nil || len(callee.Blocks) == 0 || x.Call.IsInvoke() {
				return true
			}
			for i, a := range x.Call.Args {
				if a == v {
					if i >= len(callee.Params) || addrEscapes(callee.Params[i], seen, depth+1) {
						return true
					}
				}
			}
		case *ssa.Defer:
			callee := x.Call.StaticCallee()
			if callee == nil || len(callee.Blocks) == 0 {
				return true
			}
			for i, a := range x.Call.Args {
				if a == v {
					if i >= len(callee.Params) || addrEscapes(callee.Params[i], seen, depth+1) {
						return true
					}
				}
			}
		default:
			return true
		}
	}
	return false
}

// ---------------------------------------------------------------- local names (for loop invariants)

func isPkgLevel(obj types.Object) bool {
	return obj.Pkg() != nil && obj.Parent() == obj.Pkg().Scope()
}

type localRef struct {
	v     ssa.Value
	block *ssa.BasicBlock
	ord   int
}

func (fr *frame) collectLocalNames() {
	fr.localNames = map[string][]ssa.Value{}
	fr.localRefs = map[string][]localRef{}
	for _, b := range fr.fn.Blocks {
		for i, in := range b.Instrs {
			switch x := in.(type) {
			case *ssa.DebugRef:
				if obj := x.Object(); obj != nil && !x.IsAddr {
					if _, isVar := obj.(*types.Var); isVar && !isPkgLevel(obj) {
						fr.localRefs[obj.Name()] = append(fr.localRefs[obj.Name()], localRef{x.X, b, i})
					}
				}
			case *ssa.Phi:
				if x.Comment != "" {
					fr.localRefs[x.Comment] = append(fr.localRefs[x.Comment], localRef{x, b, i})
				}
			}
		}
	}
	add := func(n string, v ssa.Value) {
		for _, o := range fr.localNames[n] {
			if o == v {
				return
			}
		}
		fr.localNames[n] = append(fr.localNames[n], v)
	}
	for _, b := range fr.fn.Blocks {
		for _, in := range b.Instrs {
			switch x := in.(type) {
			case *ssa.DebugRef:
				if x.IsAddr {
					if id, ok := x.Expr.(interface{ String() string }); ok {
						_ = id
					}
				}
				if obj := x.Object(); obj != nil {
					if _, isVar := obj.(*types.Var); isVar && !isPkgLevel(obj) {
						n := obj.Name()
						if x.IsAddr {
							n = "&" + n
						}
						add(n, x.X)
					}
				}
			case *ssa.Phi:
				if x.Comment != "" {
					add("#"+x.Comment, x)
				}
			}
		}
	}
}

// ---------------------------------------------------------------- publication of fresh objects of a `defined-by` type
// `//@ type T immutable defined-by U`: the abstract view of a T object (abstract functions over its address) is
// *defined* by U(obj, k) for all k at the moment a freshly allocated object first leaves the activation's hands (is
// passed to a call, stored as a value, returned, boxed). Before that moment nothing has been said about the object's
// view (the entry axiom speaks about objects that existed at entry), afterwards the object is immutable (structural
// obligation), so the definition is given exactly once. The assumption is listed.

func (fr *frame) publicationPoints() map[ssa.Instruction][]*ssa.Alloc {
	if fr.pubPoints != nil {
		return fr.pubPoints
	}
	fr.pubPoints = map[ssa.Instruction][]*ssa.Alloc{}
	if len(fr.vc.P.TypeDef) == 0 {
		return fr.pubPoints
	}
	for _, b := range fr.fn.Blocks {
		for _, in := range b.Instrs {
			a, ok := in.(*ssa.Alloc)
			if !ok {
				continue
			}
			nm, ok := a.Type().Underlying().(*types.Pointer).Elem().(*types.Named)
			if !ok || fr.vc.P.TypeDef[nm.Obj().Name()] == "" || a.Referrers() == nil {
				continue
			}
			var esc []ssa.Instruction
			for _, r := range *a.Referrers() {
				if isEscape(r, a) {
					esc = append(esc, r)
				}
			}
			for _, e := range esc {
				first := true
				for _, o := range esc {
					if o != e && instrDominates(o, e) {
						first = false
					}
				}
				if first {
					fr.pubPoints[e] = append(fr.pubPoints[e], a)
				}
			}
		}
	}
	return fr.pubPoints
}

func isEscape(r ssa.Instruction, a *ssa.Alloc) bool {
	switch x := r.(type) {
	case *ssa.Store:
		return x.Val == ssa.Value(a)
	case *ssa.FieldAddr, *ssa.DebugRef:
		return false
	case *ssa.UnOp:
		return false // a load of the object
	}
	return true // call argument, return, phi, boxing, closure binding, ...
}

func instrDominates(a, b ssa.Instruction) bool {
	if a.Block() == b.Block() {
		for _, in := range a.Block().Instrs {
			if in == a {
				return true
			}
			if in == b {
				return false
			}
		}
	}
	return a.Block().Dominates(b.Block())
}

func (fr *frame) publish(as []*ssa.Alloc, st *State, g string) {
	vc := fr.vc
	for _, a := range as {
		nm := a.Type().Underlying().(*types.Pointer).Elem().(*types.Named)
		u := vc.P.TypeDef[nm.Obj().Name()]
		body := u + "(pub$, q$)"
		if f := strings.Fields(u); len(f) >= 3 && f[1] == "on" { // defined-by U on trig [mark]: instantiate on trig(obj, k)
			u = f[0]
			body = "triggered(" + f[2] + "(pub$, q$), " + u + "(pub$, q$))"
		}
		e, err := ParseExpr("forall q$ int :: " + body)
		if err != nil {
			vc.specErrors = append(vc.specErrors, "defined-by "+u+": "+err.Error())
			continue
		}
		env := vc.newSpecEnv(fr.fn, st, st)
		env.fr = fr
		env.vars["pub$"] = sval{t: fr.val(a), typ: a.Type()}
		vc.assume("(=> " + g + " " + env.trBool(e) + ")")
		vc.note("DEFINITION: the abstract view of a fresh " + nm.Obj().Name() + " object is given by " + u + " when it is first published (immutable afterwards)")
		// `... inv I`: what every published object satisfies (assumed of existing objects) is an obligation here
		if f := strings.Fields(vc.P.TypeDef[nm.Obj().Name()]); len(f) == 6 && f[4] == "inv" {
			if ie, err := ParseExpr("forall q$ int :: " + f[5] + "(pub$, q$)"); err == nil {
				fr.pubN++
				vc.oblige("publish-inv", fmt.Sprintf("%s#%d", f[5], fr.pubN), g, env.trBool(ie), "a "+nm.Obj().Name()+" object satisfies "+f[5]+" when it is published", fr.props, posOf(fr.fn, a.Pos()))
			}
		}
	}
}

// markDefined: objects of a `defined-by U on f mark` type that the code dereferences are marked: the unfolding axioms
// are instantiated for marked objects only (a bare trigger on f would unfold down the whole heap)
func (fr *frame) markDefined(elem types.Type, base string, ptrT types.Type, st *State) {
	vc := fr.vc
	nm, ok := elem.(*types.Named)
	if !ok {
		return
	}
	f := strings.Fields(vc.P.TypeDef[nm.Obj().Name()])
	if len(f) < 4 || fr.marked[base] || !vc.useAxiom["view:"+nm.Obj().Name()] {
		return
	}
	if fr.marked == nil {
		fr.marked = map[string]bool{}
	}
	fr.marked[base] = true
	if e, err := ParseExpr(f[3] + "(pub$)"); err == nil {
		env := vc.newSpecEnv(fr.fn, st, st)
		env.vars["pub$"] = sval{t: base, typ: ptrT}
		if t, ok := env.tryBool(e); ok {
			vc.assume(t)
		}
	}
}
