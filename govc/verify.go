package main

import (
	"regexp"
	"fmt"
	"go/token"
	"go/types"
	"sort"
	"strings"

	"golang.org/x/tools/go/ssa"
)

type FuncVC struct {
	Key       string
	Decl      *Decl
	VC        *VC
	Obls      []*Obligation
	Inputs    []inputVar
	Err       string
	Mode      string
	Trusted   bool
	Passes    int
}

type inputVar struct {
	Name string // source-level name
	Term string // SMT constant
	Typ  types.Type
}

// autoMode: bit-vector encoding when the function uses bit operations or float<->int conversions, integers otherwise
func autoMode(fn *ssa.Function) int {
	for _, b := range fn.Blocks {
		for _, in := range b.Instrs {
			switch x := in.(type) {
			case *ssa.BinOp:
				switch x.Op {
				case token.AND, token.OR, token.XOR, token.AND_NOT, token.SHL, token.SHR:
					if _, _, ok := intInfo(x.X.Type()); ok {
						return modeBV
					}
				}
			case *ssa.UnOp:
				if x.Op == token.XOR {
					return modeBV
				}
			case *ssa.Convert:
				_, _, fi := intInfo(x.X.Type())
				_, _, ti := intInfo(x.Type())
				_, ff := isFloat(x.X.Type())
				_, tf := isFloat(x.Type())
				if (fi && tf) || (ff && ti) {
					return modeBV
				}
			}
		}
	}
	return modeInt
}

func (P *Program) BuildFuncVC(key string) *FuncVC {
	d := P.Funcs[key]
	fv := &FuncVC{Key: key, Decl: d}
	fn := P.fnByKey[key]
	if fn == nil {
		fv.Err = "contract-target-missing: no function " + key
		return fv
	}
	if d.Has("trusted") {
		fv.Trusted = true
		return fv
	}
	if len(fn.Blocks) == 0 {
		fv.Err = "function has no body"
		return fv
	}
	mode := autoMode(fn)
	switch d.First("enc") {
	case "int":
		mode = modeInt
	case "bv":
		mode = modeBV
	}
	fv.Mode = map[int]string{modeBV: "bv", modeInt: "int"}[mode]
	seed := map[string]types.Type{}
	// an axiom about abstract functions is only brought into a function's VC when the function (its contract, its
	// callees' contracts) speaks about one of them: found out pass by pass
	useAxiom := map[string]bool{}
	for pass := 1; pass <= 6; pass++ {
		vc := NewVC(P, mode, key, seed)
		vc.useAxiom = useAxiom
		vc.newClass = false
		func() {
			defer func() {
				if r := recover(); r != nil {
					if se, ok := r.(specErr); ok {
						fv.Err = "spec error: " + string(se)
						return
					}
					panic(r)
				}
			}()
			fv.Inputs = encodeTop(vc, fn, d)
		}()
		fv.VC = vc
		fv.Passes = pass
		moreAxioms := false
		for tname, def := range P.TypeDef {
			if f := strings.Fields(def); len(f) >= 4 && !useAxiom["view:"+tname] && vc.declared["|spec_"+f[2]+"|"] {
				useAxiom["view:"+tname] = true
				moreAxioms = true
			}
		}
		for _, ax := range P.Axioms {
			if useAxiom[ax.Label] {
				continue
			}
			for _, name := range axiomAbstracts(P, ax) {
				if vc.declared["|spec_"+name+"|"] {
					useAxiom[ax.Label] = true
					moreAxioms = true
				}
			}
		}
		if fv.Err != "" || (!vc.newClass && !moreAxioms) {
			break
		}
		seed = vc.classes
	}
	if fv.VC != nil {
		fv.Obls = fv.VC.obls
		if len(fv.VC.specErrors) > 0 && fv.Err == "" {
			fv.Err = "spec error: " + strings.Join(fv.VC.specErrors, "; ")
		}
	}
	return fv
}

func encodeTop(vc *VC, fn *ssa.Function, d *Decl) []inputVar {
	fr := vc.newFrame(fn, "", 0)
	fr.top = true
	fr.contract = d
	fr.rootFr = fr
	fr.props = d.Props()
	fr.nosafety = d.Has("nosafety")
	st := vc.initState()
	fr.entry = st
	var inputs []inputVar
	for pi, p := range fn.Params {
		pname := p.Name()
		if pname == "_" || pname == "" {
			pname = fmt.Sprintf("$arg%d", pi)
		}
		if preludeSyms[pname] { // |base| and the prelude's base are the same SMT symbol
			pname += "$go"
		}
		c := vc.declare("|"+pname+"|", vc.sortOf(p.Type()))
		fr.vals[p] = c
		for _, f := range fr.typeFacts(st, p.Type(), c, true) {
			vc.assume(f)
		}
		if isContType(p.Type()) {
			fr.kparam = p
		}
		inputs = append(inputs, inputVar{p.Name(), c, p.Type()})
	}
	for _, p := range fn.FreeVars {
		c := vc.declare("|^"+p.Name()+"|", vc.sortOf(p.Type()))
		fr.vals[p] = c
		for _, f := range fr.typeFacts(st, p.Type(), c, true) {
			vc.assume(f)
		}
		// a captured variable is a cell: its content is well-typed
		if pt, ok := p.Type().Underlying().(*types.Pointer); ok {
			vc.assume("(not (= " + c + " 0))")
			if isContType(pt.Elem()) {
				fr.kcell = p
			}
		}
		inputs = append(inputs, inputVar{"^" + p.Name(), c, p.Type()})
	}
	// global axioms
	for _, ax := range vc.P.Axioms {
		if len(axiomAbstracts(vc.P, ax)) > 0 && !vc.useAxiom[ax.Label] {
			continue
		}
		env := vc.newSpecEnv(fn, st, st)
		f, ok := env.tryBool(ax.Body)
		if !ok {
			continue // not expressible in this function's encoding (e.g. a map view in a bit-vector function): not used
		}
		vc.assume(f)
		vc.usedAxioms[ax.Label] = true
	}
	// preconditions
	env0 := fr.specEnvAt(st)
	for _, c := range d.Get("requires") {
		vc.assume(env0.trBool(c.E))
	}
	// let-bound ghost names: `let name = expr` evaluated at entry
	for _, c := range d.Get("let") {
		i := strings.Index(c.Text, "=")
		if i < 0 {
			continue
		}
		name := strings.TrimSpace(c.Text[:i])
		e, err := ParseExpr(c.Text[i+1:])
		if err != nil {
			panic(specErr(err.Error()))
		}
		fr.lets = append(fr.lets, letBinding{name, env0.tr(e)})
	}
	// names introduced by bind clauses exist from the start (arbitrary values, called(x) false) until their call is encoded
	for _, c := range d.Get("bind") {
		i := strings.Index(c.Text, "=")
		if i < 0 {
			continue
		}
		target := strings.TrimSpace(c.Text[i+1:])
		if j := strings.LastIndex(target, "#"); j >= 0 {
			target = strings.TrimSpace(target[:j])
		}
		var rsig *types.Signature
		if target == "append" { // a builtin: only called(x) is available before the call is encoded
			if fr.bindVals == nil {
				fr.bindVals = map[string]sval{}
			}
			for _, n := range strings.Split(c.Text[:i], ",") {
				if n = strings.TrimSpace(n); n != "_" && n != "" {
					fr.bindVals[n+"$called"] = sval{t: "false", typ: boolT}
				}
			}
			continue
		}
		if callee := vc.P.ResolveFunc(fnPkgName(fn), target); callee != nil {
			rsig = callee.Signature
		} else if sg := vc.P.anyIfaceMethodSig(target); sg != nil {
			rsig = sg // a method of an interface (of any package): pkg.Iface.Method
		} else {
			panic(specErr("bind: unknown function " + target))
		}
		if fr.bindVals == nil {
			fr.bindVals = map[string]sval{}
		}
		for k, n := range strings.Split(c.Text[:i], ",") {
			n = strings.TrimSpace(n)
			if n == "_" || n == "" || k >= rsig.Results().Len() {
				continue
			}
			rt := rsig.Results().At(k).Type()
			fr.bindVals[n] = sval{t: vc.freshConst("unbound_"+n, vc.sortOf(rt)), typ: rt}
			fr.bindVals[n+"$called"] = sval{t: "false", typ: boolT}
		}
	}
	// `hint e`: a boolean term the solver should know about when it instantiates quantifiers (evaluated at entry). It is
	// passed to an otherwise unconstrained predicate, so it restricts nothing.
	for _, c := range d.Get("hint") {
		e, err := ParseExpr(c.Text)
		if err != nil {
			vc.specErrors = append(vc.specErrors, "hint: "+err.Error())
			continue
		}
		vc.declareFun("|hint!b|", []string{"Bool"}, "Bool")
		vc.assume("(|hint!b| " + fr.specEnvAt(st).trBool(e) + ")")
	}
	// `uses F:label`: a claim proved as an obligation of function F (F:lemma:label) is available here
	for _, c := range d.Get("uses") {
		f := strings.Fields(c.Text)
		if len(f) != 1 || !strings.Contains(f[0], ":") {
			vc.specErrors = append(vc.specErrors, "uses: expected F:label")
			continue
		}
		i := strings.LastIndex(f[0], ":")
		fname, lab := f[0][:i], f[0][i+1:]
		var src *Decl
		for k, dd := range vc.P.Funcs {
			if k == fname || shortKey(k) == fname || strings.HasSuffix(k, "."+fname) {
				src = dd
			}
		}
		found := false
		if src != nil {
			for _, cc := range src.Get("claim") {
				if cc.Label == lab && !src.Has("trusted") && len(src.Get("requires")) == 0 {
					vc.assume(fr.specEnvAt(st).trBool(cc.E))
					vc.note("lemma used: " + fname + ":lemma:" + lab + " (discharged as an obligation of " + fname + ")")
					found = true
				}
			}
		}
		if !found {
			vc.specErrors = append(vc.specErrors, "uses "+c.Text+": no such claim (or its function is trusted / has preconditions)")
		}
	}
	// `claim[label] expr`: a lemma over the spec functions, to be valid under the preconditions and axioms alone
	for _, c := range d.Get("claim") {
		vc.oblige("lemma", c.Label, "true", fr.specEnvAt(st).trBool(c.E), "claim "+c.Text, fr.props, "")
	}
	vc.oblige("cover-pre", "", "true", "false", "the preconditions, type invariants and axioms are satisfiable", []string{"vacuity"}, "").Expect = "sat"
	fr.encodeBody(st, "true")
	// an at-call clause that matched no call of the function pins nothing: the call it speaks about is gone
	for _, cl := range d.Get("at-call") {
		txt := strings.TrimSpace(cl.Text)
		if strings.HasPrefix(txt, "dynamic") || fr.atCallSeen[cl] {
			continue
		}
		vc.oblige("at-call-missing", sanitizeLit(firstWord(txt)), "true", "false", "the function no longer makes the call this clause is about: at-call "+txt, fr.props, posOf(fn, fn.Pos()))
	}
	// onk clauses speak about the points where the continuation may run: a function under such a contract in which
	// the encoder found no such point proves nothing about them
	if len(d.Get("onk")) > 0 && fr.kpoints == 0 {
		vc.oblige("onk-missing", "", "true", "false", "the contract has onk clauses but no point was found where the continuation may run (a callee that receives it lacks `calls k`, or it is invoked in a way the encoder does not follow)", fr.props, posOf(fn, fn.Pos()))
	}
	for _, cl := range d.Get("at-event") {
		if !fr.atCallSeen[cl] {
			vc.oblige("at-event-missing", sanitizeLit(strings.Join(strings.Fields(cl.Text)[:2], "-")), "true", "false", "the function no longer performs the channel operation this clause is about: at-event "+cl.Text, fr.props, posOf(fn, fn.Pos()))
		}
	}
	for _, cl := range d.Get("at-store") {
		if !fr.atCallSeen[cl] && !strings.HasSuffix(firstWord(strings.TrimSpace(cl.Text)), "?") {
			vc.oblige("at-store-missing", sanitizeLit(firstWord(strings.TrimSpace(cl.Text))), "true", "false", "the function no longer stores into the field this clause is about: at-store "+cl.Text, fr.props, posOf(fn, fn.Pos()))
		}
	}
	if len(fr.rets) == 0 {
		return inputs
	}
	// merge returns
	var states []*State
	var conds []string
	for _, r := range fr.rets {
		states = append(states, r.st)
		conds = append(conds, r.guard)
	}
	final := vc.merge(states, conds, "ret")
	rg := vc.define("|$retguard|", "Bool", or(conds...))
	sig := fn.Signature
	var results []string
	for i := 0; i < sig.Results().Len(); i++ {
		e := fr.rets[len(fr.rets)-1].vals[i]
		for j := len(fr.rets) - 2; j >= 0; j-- {
			if fr.rets[j].vals[i] != e {
				e = "(ite " + fr.rets[j].guard + " " + fr.rets[j].vals[i] + " " + e + ")"
			}
		}
		results = append(results, vc.define(fmt.Sprintf("|$result%d|", i), vc.sortOf(sig.Results().At(i).Type()), e))
	}
	vc.oblige("cover-ret", "", rg, "false", "some return is reachable under the preconditions", []string{"vacuity"}, "").Expect = "sat"
	post := fr.specEnvAt(final)
	post.old = st
	bindResults(post, fn, sig, results)
	pos := posOf(fn, fn.Pos())
	for _, c := range d.Get("ensures") {
		if d.Has("assumed-post") {
			// the postconditions stay assumptions for the callers (as under `trusted`), but the body is still encoded
			// for the function's other obligations (at-call, at-store, safety, structural)
			vc.note("ASSUMED on " + vc.fn + ": its postconditions (assumed-post: the body is checked only for its at-call/at-store/safety obligations)")
			break
		}
		f := post.trBool(c.E)
		vc.oblige("post", c.Label, rg, f, "ensures "+c.Text, fr.props, pos).AltGuards = conds
	}
	for _, c := range d.Get("nok") {
		f := post.trBool(c.E)
		kc := ghostGet(final, "$kcalls", "0")
		vc.oblige("nok", c.Label, and(rg, "(= "+kc+" 0)"), f, "nok "+c.Text, fr.props, pos)
	}
	for _, c := range d.Get("calls") {
		// "calls k atmost 1"
		f := strings.Fields(c.Text)
		if len(f) == 3 && f[1] == "atmost" {
			kc := ghostGet(final, "$kcalls", "0")
			vc.oblige("calls-k", "atmost"+f[2], rg, "(<= "+kc+" "+f[2]+")", "the continuation is invoked at most "+f[2]+" time(s) on every path", fr.props, pos)
		}
	}
	// type invariants of results
	for i, r := range results {
		if isIface(sig.Results().At(i).Type()) {
			continue // checked where the concrete value is boxed (MakeInterface) and at the concrete-typed producers
		}
		for _, inv := range fr.invFacts(final, sig.Results().At(i).Type(), r) {
			vc.oblige("typeinv", fmt.Sprintf("result%d", i), rg, inv, "type invariant of result "+fmt.Sprint(i), fr.props, pos)
		}
	}
	// frame: locations outside the modifies clause keep their value (objects allocated before the call)
	items, specified, err := parseModifies(d)
	if err != nil {
		panic(specErr("modifies: " + err.Error()))
	}
	if specified && !d.Has("trusted-frame") {
		fr.frameObligations(items, st, final, rg, pos)
	}
	if d.Has("trusted-frame") {
		vc.note("ASSUMED on " + d.Name + ": its modifies clause (trusted-frame: no frame obligation generated)")
	}
	return inputs
}

func firstWord(s string) string {
	if i := strings.IndexAny(s, " \t"); i > 0 {
		return s[:i]
	}
	return s
}

type letBinding struct {
	name string
	v    sval
}

// specEnvAt: spec environment of the function under verification in state st
func (fr *frame) specEnvAt(st *State) *specEnv {
	root := fr.rootFr
	env := fr.vc.newSpecEnv(root.fn, st, root.entry)
	env.fr = root
	env.declFile = root.contract
	for _, p := range root.fn.Params {
		env.vars[p.Name()] = sval{t: root.vals[p], typ: p.Type()}
	}
	for _, p := range root.fn.FreeVars {
		// captured variables are cells; expose their content under the variable's name and the cell as ^name
		if pt, ok := p.Type().Underlying().(*types.Pointer); ok {
			env.vars[p.Name()] = sval{t: fr.vc.load(st, root.vals[p], pt.Elem()), typ: pt.Elem(), addr: root.vals[p]}
		} else {
			env.vars[p.Name()] = sval{t: root.vals[p], typ: p.Type()}
		}
	}
	for _, l := range root.lets {
		env.vars[l.name] = l.v
	}
	for name, tup := range root.binds {
		_ = name
		_ = tup
	}
	for name, b := range root.bindVals {
		env.vars[name] = b
	}
	return env
}

// bind clauses: "bind v, e = eval#1" names the results of the n-th call (in encoding order) of a callee
func (fr *frame) callSeq(key string) int {
	if fr.callSeqN == nil {
		fr.callSeqN = map[string]int{}
	}
	fr.callSeqN[key]++
	return fr.callSeqN[key]
}

func (fr *frame) recordBind(key string, seq int, res []string, sig *types.Signature, args []string, argT []types.Type, g string) {
	if fr.contract == nil {
		return
	}
	for _, c := range fr.contract.Get("bind") {
		i := strings.Index(c.Text, "=")
		if i < 0 {
			continue
		}
		names := strings.Split(c.Text[:i], ",")
		target := strings.TrimSpace(c.Text[i+1:])
		j := strings.LastIndex(target, "#")
		if j < 0 {
			continue
		}
		tname, tn := strings.TrimSpace(target[:j]), strings.TrimSpace(target[j+1:])
		if fmt.Sprint(seq) != tn {
			continue
		}
		if tname != key && "engine."+tname != key && "prolog."+tname != key && shortKey(key) != tname {
			continue
		}
		if fr.bindVals == nil {
			fr.bindVals = map[string]sval{}
		}
		for k, n := range names {
			n = strings.TrimSpace(n)
			if n == "_" || n == "" {
				continue
			}
			if k < len(res) {
				fr.bindVals[n] = sval{t: res[k], typ: sig.Results().At(k).Type()}
			}
			// called(n): the call was executed on this path; argof(n, i): its i-th actual argument
			fr.bindVals[n+"$called"] = sval{t: g, typ: boolT}
			for i := range args {
				fr.bindVals[fmt.Sprintf("%s$a%d", n, i)] = sval{t: args[i], typ: argT[i]}
			}
		}
	}
}

// frameFormulas: per heap class, "every address outside the modifies set that belongs to an object allocated before
// the call holds the same value in state `now` as at entry". ok=false when the clause says `modifies heap`.
func (fr *frame) frameFormulas(items []modItem, st0, now *State, onlyChanged bool) (map[string]string, bool) {
	vc := fr.vc
	env := fr.specEnvAt(st0)
	perClass := map[string][]string{} // class -> exclusion conditions over bound address a
	wholeClass := map[string]bool{}
	for _, it := range items {
		switch it.kind {
		case "heap":
			return nil, false
		case "class":
			t := env.resolveType(it.typ)
			if t == nil {
				panic(specErr("modifies class " + it.typ + ": unknown type"))
			}
			for _, c := range vc.classesOfType(t) {
				wholeClass[c] = true
			}
		case "loc":
			addr, t, ok := env.lvalue(it.e)
			if !ok {
				panic(specErr("modifies " + it.e.String() + ": not an lvalue"))
			}
			var add func(addr string, t types.Type)
			add = func(addr string, t types.Type) {
				switch u := t.Underlying().(type) {
				case *types.Struct:
					for i := 0; i < u.NumFields(); i++ {
						add(vc.fieldAddr(t, i, addr), u.Field(i).Type())
					}
				case *types.Array:
					for i := 0; i < int(u.Len()) && i < 32; i++ {
						add(vc.ea(addr, fmt.Sprint(i)), u.Elem())
					}
				default:
					c := vc.className(t)
					perClass[c] = append(perClass[c], "(= a "+addr+")")
				}
			}
			if _, isMap := t.Underlying().(*types.Map); isMap {
				// the map variable and the map object's content
				sv := env.tr(it.e)
				mc := vc.mapClass(t)
				perClass[mc] = append(perClass[mc], "(= a "+sv.t+")")
			}
			add(addr, t)
		case "elems":
			sv := env.tr(it.e)
			sl, ok := sv.typ.Underlying().(*types.Slice)
			if !ok {
				panic(specErr("modifies elems of a non-slice"))
			}
			if _, isStruct := sl.Elem().Underlying().(*types.Struct); isStruct {
				panic(specErr("modifies elems(x) of a slice of structs is not supported: name the class instead"))
			}
			for _, c := range vc.classesOfType(sl.Elem()) {
				perClass[c] = append(perClass[c], "(and (= (akind a) 1) (= (ea_arr a) (s_arr "+sv.t+")))")
			}
		}
	}
	var classes []string
	for _, c := range vc.classOrd {
		classes = append(classes, c)
	}
	sort.Strings(classes)
	out := map[string]string{}
	for _, c := range classes {
		if wholeClass[c] {
			continue
		}
		h0, h1 := vc.heapOf(st0, c), vc.heapOf(now, c)
		if h0 == h1 && onlyChanged {
			continue
		}
		excl := or(perClass[c]...)
		out[c] = fmt.Sprintf("(forall ((a Int)) (! (=> (and (<= (base a) %s) (not %s)) (= (select %s a) (select %s a))) :pattern ((select %s a))))", st0.hw, excl, h1, h0, h1)
	}
	return out, true
}

func (fr *frame) frameObligations(items []modItem, st0, final *State, rg string, pos string) {
	vc := fr.vc
	fs, ok := fr.frameFormulas(items, st0, final, true)
	if !ok {
		return
	}
	var classes []string
	for c := range fs {
		classes = append(classes, c)
	}
	sort.Strings(classes)
	for _, c := range classes {
		vc.oblige("frame", strings.TrimPrefix(c, "H_"), rg, fs[c], "only the locations of the modifies clause change (class "+c+")", fr.props, pos)
	}
}

var identRe = regexp.MustCompile(`[A-Za-z_][A-Za-z_0-9]*`)

// axiomAbstracts: the abstract spec functions an axiom speaks about
func axiomAbstracts(P *Program, ax *Decl) []string {
	var out []string
	seen := map[string]bool{}
	for _, id := range identRe.FindAllString(ax.BodyTxt, -1) {
		if d, ok := P.SpecFuns[id]; ok && !seen[id] {
			seen[id] = true
			if d.Abstract {
				out = append(out, id)
			} else {
				// a macro: look inside
				for _, id2 := range identRe.FindAllString(d.BodyTxt, -1) {
					if d2, ok := P.SpecFuns[id2]; ok && d2.Abstract && !seen[id2] {
						seen[id2] = true
						out = append(out, id2)
					}
				}
			}
		}
	}
	return out
}

func fnPkgName(fn *ssa.Function) string {
	for f := fn; f != nil; f = f.Parent() {
		if f.Pkg != nil {
			return f.Pkg.Pkg.Name()
		}
	}
	return ""
}

// anyIfaceMethodSig: the signature of pkg.Iface.Method for an interface of any loaded package
func (P *Program) anyIfaceMethodSig(key string) *types.Signature {
	i := strings.LastIndex(key, ".")
	if i < 0 {
		return nil
	}
	j := strings.LastIndex(key[:i], ".")
	if j < 0 {
		return nil
	}
	pn, tn, mn := key[:j], key[j+1:i], key[i+1:]
	for _, p := range P.Prog.AllPackages() {
		if p.Pkg.Name() != pn && p.Pkg.Path() != pn {
			continue
		}
		o := p.Pkg.Scope().Lookup(tn)
		if o == nil {
			continue
		}
		it, ok := o.Type().Underlying().(*types.Interface)
		if !ok {
			continue
		}
		for k := 0; k < it.NumMethods(); k++ {
			if it.Method(k).Name() == mn {
				return it.Method(k).Type().(*types.Signature)
			}
		}
	}
	return nil
}
