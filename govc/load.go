package main

import (
	"fmt"
	"go/types"
	"os"
	"path/filepath"
	"sort"
	"strings"

	"golang.org/x/tools/go/packages"
	"golang.org/x/tools/go/ssa"
	"golang.org/x/tools/go/ssa/ssautil"
)

const enginePath = "github.com/ichiban/prolog/engine"
const rootPath = "github.com/ichiban/prolog"

type GhostDecl struct{ Name, Sort, Init string }

type Program struct {
	Prog     *ssa.Program
	Pkgs     map[string]*ssa.Package // by path
	TPkgs    map[string]*packages.Package
	Decls    []*Decl
	Funcs    map[string]*Decl // contract by resolved function key
	FuncOrd  []string
	Externs  map[string]*Decl
	SpecFuns map[string]*Decl
	Axioms   []*Decl
	Lemmas   []*Decl
	TypeInvs map[string][]*Decl // by type string
	TypeAttr map[string]string
	TypeDef  map[string]string // immutable type -> spec function U(n, k) that defines the abstract view of a fresh object when it is published
	Globals  map[string]*Decl
	Tables   []*Decl
	Ghosts   map[string]*GhostDecl
	FuncTypes map[string]*Decl
	typeIDs  map[string]int
	allNamed []types.Type
	implCache map[string][]types.Type
	fnByKey  map[string]*ssa.Function
	RepoDir  string
	LoadSecs float64
	globalConst map[*ssa.Global]ssa.Value // init-time constant stores
	globalStores map[*ssa.Global][]*ssa.Function
	allFuncs []*ssa.Function
	ghostTypes map[string]types.Type
	externFns map[string]*ssa.Function
}

func LoadProgram(repo string, overlay map[string][]byte) (*Program, error) {
	cfg := &packages.Config{Mode: packages.LoadAllSyntax, Dir: repo, BuildFlags: []string{"-tags=verif"}, Overlay: overlay,
		Env: append(os.Environ(), "GOFLAGS=-mod=mod", "GOPROXY=off", "GOSUMDB=off", "GOTOOLCHAIN=local")}
	pkgs, err := packages.Load(cfg, rootPath, enginePath)
	if err != nil {
		return nil, err
	}
	var errs []string
	packages.Visit(pkgs, nil, func(p *packages.Package) {
		if p.PkgPath == rootPath || p.PkgPath == enginePath {
			for _, e := range p.Errors {
				errs = append(errs, e.Error())
			}
		}
	})
	if len(errs) > 0 {
		return nil, fmt.Errorf("package errors: %s", strings.Join(errs, "; "))
	}
	prog, _ := ssautil.AllPackages(pkgs, ssa.InstantiateGenerics|ssa.GlobalDebug)
	prog.Build()
	P := &Program{Prog: prog, Pkgs: map[string]*ssa.Package{}, TPkgs: map[string]*packages.Package{}, Funcs: map[string]*Decl{}, Externs: map[string]*Decl{},
		SpecFuns: map[string]*Decl{}, TypeInvs: map[string][]*Decl{}, TypeAttr: map[string]string{}, TypeDef: map[string]string{}, Globals: map[string]*Decl{}, Ghosts: map[string]*GhostDecl{},
		FuncTypes: map[string]*Decl{}, typeIDs: map[string]int{}, implCache: map[string][]types.Type{}, fnByKey: map[string]*ssa.Function{}, RepoDir: repo}
	for _, p := range prog.AllPackages() {
		P.Pkgs[p.Pkg.Path()] = p
	}
	packages.Visit(pkgs, nil, func(p *packages.Package) { P.TPkgs[p.PkgPath] = p })
	if P.Pkgs[enginePath] == nil || P.Pkgs[rootPath] == nil {
		return nil, fmt.Errorf("packages not loaded")
	}
	// stable type ids for the named types of the two packages (and their pointer types)
	for _, path := range []string{enginePath, rootPath} {
		sc := P.Pkgs[path].Pkg.Scope()
		names := sc.Names()
		sort.Strings(names)
		for _, n := range names {
			if tn, ok := sc.Lookup(n).(*types.TypeName); ok && !tn.IsAlias() {
				if _, isI := tn.Type().Underlying().(*types.Interface); isI {
					continue
				}
				if named, ok := tn.Type().(*types.Named); ok && named.TypeParams().Len() > 0 {
					continue
				}
				P.allNamed = append(P.allNamed, tn.Type(), types.NewPointer(tn.Type()))
			}
		}
	}
	for _, t := range P.allNamed {
		P.TypeID(types.TypeString(t, nil))
	}
	// all functions (including closures) of the two packages
	for fn := range ssautil.AllFunctions(prog) {
		if fn.Pkg != nil && (fn.Pkg.Pkg.Path() == enginePath || fn.Pkg.Pkg.Path() == rootPath) {
			P.allFuncs = append(P.allFuncs, fn)
		}
	}
	sort.Slice(P.allFuncs, func(i, j int) bool { return fnKey(P.allFuncs[i]) < fnKey(P.allFuncs[j]) })
	for _, fn := range P.allFuncs {
		P.fnByKey[fnKey(fn)] = fn
	}
	P.scanGlobals()
	return P, nil
}

func (P *Program) TypeID(k string) int {
	if id, ok := P.typeIDs[k]; ok {
		return id
	}
	id := len(P.typeIDs) + 1
	P.typeIDs[k] = id
	return id
}

// fnKey: "engine.addI", "engine.(*Env).lookup", "engine.Integer.Compare", "prolog.(*Solutions).Next", closures "engine.Catch$1"
func fnKey(fn *ssa.Function) string {
	pkg := ""
	if fn.Pkg != nil {
		pkg = fn.Pkg.Pkg.Name()
	} else if fn.Parent() != nil && fn.Parent().Pkg != nil {
		pkg = fn.Parent().Pkg.Pkg.Name()
	}
	if fn.Parent() != nil {
		// closure: name is like "Catch$1"
		par := fnKey(fn.Parent())
		suffix := fn.Name()
		if i := strings.LastIndex(suffix, "$"); i >= 0 {
			suffix = suffix[i:]
		}
		return par + suffix
	}
	if recv := fn.Signature.Recv(); recv != nil {
		rt := recv.Type()
		ptr := false
		if p, ok := rt.(*types.Pointer); ok {
			ptr = true
			rt = p.Elem()
		}
		name := types.TypeString(rt, func(*types.Package) string { return "" })
		if ptr {
			return pkg + ".(*" + name + ")." + fn.Name()
		}
		return pkg + "." + name + "." + fn.Name()
	}
	return pkg + "." + fn.Name()
}

// resolve a contract target written relative to the contract file's package
func (P *Program) ResolveFunc(pkgName, target string) *ssa.Function {
	target = strings.TrimSpace(target)
	if fn, ok := P.fnByKey[pkgName+"."+target]; ok {
		return fn
	}
	if fn, ok := P.fnByKey[target]; ok {
		return fn
	}
	return nil
}

// external (dependency) function by full path, e.g. "math.Floor", "(*bufio.Reader).ReadRune"
func externKey(fn *ssa.Function) string {
	if fn == nil {
		return ""
	}
	if recv := fn.Signature.Recv(); recv != nil {
		rt := recv.Type()
		ptr := false
		if p, ok := rt.(*types.Pointer); ok {
			ptr = true
			rt = p.Elem()
		}
		name := types.TypeString(rt, func(p *types.Package) string { return p.Path() })
		if ptr {
			return "(*" + name + ")." + fn.Name()
		}
		return name + "." + fn.Name()
	}
	if fn.Pkg != nil {
		return fn.Pkg.Pkg.Path() + "." + fn.Name()
	}
	if fn.Object() != nil && fn.Object().Pkg() != nil {
		return fn.Object().Pkg().Path() + "." + fn.Name()
	}
	return fn.String()
}

// findExtern: a function of a dependency by its extern key ("reflect.Value.Int", "(*bufio.Reader).ReadRune", "math.Floor")
func (P *Program) findExtern(key string) *ssa.Function {
	if P.externFns == nil {
		P.externFns = map[string]*ssa.Function{}
		for fn := range ssautil.AllFunctions(P.Prog) {
			if fn.Pkg != nil || fn.Signature.Recv() != nil {
				P.externFns[externKey(fn)] = fn
			}
		}
	}
	return P.externFns[key]
}

func (P *Program) LoadContracts() error {
	files := []struct{ path, pkg string }{
		{filepath.Join(P.RepoDir, "engine", "verif_contracts.go"), "engine"},
		{filepath.Join(P.RepoDir, "verif_contracts.go"), "prolog"},
		// thin safety-only contracts of the no-panic sweep (generated list, see DESIGN.md 5 C05)
		{filepath.Join(P.RepoDir, "engine", "verif_sweep.go"), "engine"},
	}
	// further contract files of the same kind (verif_contracts_<topic>.go), in name order, after the main ones
	for _, g := range []struct{ dir, pkg string }{{filepath.Join(P.RepoDir, "engine"), "engine"}, {P.RepoDir, "prolog"}} {
		more, _ := filepath.Glob(filepath.Join(g.dir, "verif_contracts_*.go"))
		sort.Strings(more)
		for _, m := range more {
			files = append(files, struct{ path, pkg string }{m, g.pkg})
		}
	}
	for _, f := range files {
		if _, err := os.Stat(f.path); err != nil {
			continue
		}
		decls, err := ParseContractFile(f.path)
		if err != nil {
			return err
		}
		for _, d := range decls {
			d.File = f.path
			switch d.Kind {
			case "func":
				fn := P.ResolveFunc(f.pkg, d.Name)
				key := f.pkg + "." + d.Name
				if fn != nil {
					key = fnKey(fn)
				}
				if _, dup := P.Funcs[key]; dup {
					return fmt.Errorf("%s:%d: duplicate contract for %s", d.File, d.Line, key)
				}
				d.Name = key
				P.Funcs[key] = d
				P.FuncOrd = append(P.FuncOrd, key)
			case "extern":
				P.Externs[d.Name] = d
			case "functype":
				P.FuncTypes[d.Name] = d
			case "specfun":
				P.SpecFuns[d.Name] = d
			case "axiom":
				P.Axioms = append(P.Axioms, d)
			case "lemma":
				P.Lemmas = append(P.Lemmas, d)
			case "type":
				if d.Attr == "invariant" {
					P.TypeInvs[d.Name] = append(P.TypeInvs[d.Name], d)
				} else {
					attr := strings.TrimSpace(d.Attr)
					if i := strings.Index(attr, "defined-by "); i >= 0 {
						P.TypeDef[d.Name] = strings.TrimSpace(attr[i+len("defined-by "):])
						attr = strings.TrimSpace(attr[:i])
					}
					if attr != "" {
						P.TypeAttr[d.Name] = attr
					}
				}
			case "global":
				P.Globals[d.Name] = d
			case "table":
				P.Tables = append(P.Tables, d)
			case "ghost":
				f := strings.Fields(d.Attr)
				g := &GhostDecl{Name: d.Name, Sort: "Int", Init: "0"}
				if len(f) > 0 && f[0] == "bool" {
					g.Sort, g.Init = "Bool", "false"
				}
				P.Ghosts[d.Name] = g
			}
			P.Decls = append(P.Decls, d)
		}
	}
	return nil
}

// Implementers of an interface among the named types of the two packages (+ pointer types).
// closed: the interface has an unexported method, so no type outside its package can implement it.
func (P *Program) Implementers(j types.Type) ([]types.Type, bool) {
	k := types.TypeString(j, nil)
	iface := j.Underlying().(*types.Interface)
	closed := false
	for i := 0; i < iface.NumMethods(); i++ {
		if !iface.Method(i).Exported() {
			closed = true
		}
	}
	if r, ok := P.implCache[k]; ok {
		return r, closed
	}
	var out []types.Type
	for _, t := range P.allNamed {
		if types.Implements(t, iface) {
			out = append(out, t)
		}
	}
	P.implCache[k] = out
	return out, closed
}

func (P *Program) NonImplementers(j types.Type) []types.Type {
	iface := j.Underlying().(*types.Interface)
	var out []types.Type
	for _, t := range P.allNamed {
		if !types.Implements(t, iface) {
			out = append(out, t)
		}
	}
	return out
}

// scanGlobals records, for every package-level variable of the two packages, which functions store to it
// and whether init stores a constant.
func (P *Program) scanGlobals() {
	P.globalConst = map[*ssa.Global]ssa.Value{}
	P.globalStores = map[*ssa.Global][]*ssa.Function{}
	for _, fn := range P.allFuncs {
		for _, b := range fn.Blocks {
			for _, in := range b.Instrs {
				st, ok := in.(*ssa.Store)
				if !ok {
					continue
				}
				g := rootGlobal(st.Addr)
				if g == nil {
					continue
				}
				P.globalStores[g] = append(P.globalStores[g], fn)
				if fn.Name() == "init" && fn.Parent() == nil {
					if _, direct := st.Addr.(*ssa.Global); direct {
						if _, seen := P.globalConst[g]; seen {
							P.globalConst[g] = nil // stored twice
						} else {
							P.globalConst[g] = st.Val
						}
					}
				}
			}
		}
	}
}

func rootGlobal(v ssa.Value) *ssa.Global {
	for {
		switch x := v.(type) {
		case *ssa.Global:
			return x
		case *ssa.FieldAddr:
			v = x.X
		case *ssa.IndexAddr:
			v = x.X
		default:
			return nil
		}
	}
}

// WriteOnce: the global is stored only by package init functions.
func (P *Program) WriteOnce(g *ssa.Global) bool {
	for _, fn := range P.globalStores[g] {
		if !(fn.Name() == "init" && fn.Parent() == nil) && !strings.HasPrefix(fn.Name(), "init#") {
			return false
		}
	}
	return true
}

func (P *Program) LookupGlobal(pkgName, name string) *ssa.Global {
	for _, path := range []string{enginePath, rootPath} {
		p := P.Pkgs[path]
		if p.Pkg.Name() != pkgName {
			continue
		}
		if g, ok := p.Members[name].(*ssa.Global); ok {
			return g
		}
	}
	return nil
}
