package main

import "strings"

// Cone-of-influence slicing of a VC (DESIGN C.1): an obligation's query contains only the definitions its symbols
// depend on and the assumptions connected to them through declared symbols. Dropping assumptions is sound for proofs;
// a model of the sliced query extends to the dropped part because that part shares no symbol with it (and the
// cover-pre obligation, which is never sliced, checks that all assumptions together are satisfiable).

type lineInfo struct {
	kind  string // sort, decl, def, assert, other
	name  string
	konst bool
	syms  []string
	quant bool
}

func tokenize(s string) []string {
	var out []string
	i := 0
	for i < len(s) {
		c := s[i]
		switch {
		case c == ' ' || c == '(' || c == ')' || c == '\n' || c == '\t':
			i++
		case c == '|':
			j := strings.IndexByte(s[i+1:], '|')
			if j < 0 {
				return out
			}
			out = append(out, s[i:i+j+2])
			i += j + 2
		default:
			j := i
			for j < len(s) && s[j] != ' ' && s[j] != '(' && s[j] != ')' && s[j] != '\n' {
				j++
			}
			out = append(out, s[i:j])
			i = j
		}
	}
	return out
}

func analyzeLine(s string) lineInfo {
	li := lineInfo{kind: "other"}
	toks := tokenize(s)
	if len(toks) == 0 {
		return li
	}
	switch toks[0] {
	case "declare-sort", "declare-datatypes", "define-sort", "set-option", "set-logic":
		li.kind = "sort"
	case "declare-fun", "declare-const":
		li.kind = "decl"
		li.name = toks[1]
		li.konst = strings.Contains(s, li.name+" () ")
	case "define-fun":
		li.kind = "def"
		li.name = toks[1]
		li.syms = toks[2:]
	case "assert":
		li.kind = "assert"
		li.syms = toks[1:]
		li.quant = strings.Contains(s, "(forall ") || strings.Contains(s, "(exists ")
	}
	return li
}

func (vc *VC) lineInfos(n int) []lineInfo {
	for len(vc.linfo) < n {
		vc.linfo = append(vc.linfo, analyzeLine(vc.lines[len(vc.linfo)].s))
	}
	return vc.linfo[:n]
}

// sliceLines returns the lines (in order) needed for a goal mentioning goalText
func (vc *VC) sliceLines(n int, goalText string) []string {
	infos := vc.lineInfos(n)
	declared := map[string]int{} // declared symbol -> line
	isConst := map[string]bool{}
	defined := map[string]int{}
	for i, li := range infos {
		switch li.kind {
		case "decl":
			declared[li.name] = i
			isConst[li.name] = li.konst
		case "def":
			defined[li.name] = i
		}
	}
	needLine := make([]bool, n)
	needed := map[string]bool{} // declared symbols in the cone
	var work []string
	addSym := func(s string) {
		if _, ok := declared[s]; ok {
			if !needed[s] {
				needed[s] = true
				needLine[declared[s]] = true
			}
			return
		}
		if i, ok := defined[s]; ok && !needLine[i] {
			needLine[i] = true
			work = append(work, infos[i].syms...)
		}
	}
	drain := func() {
		for len(work) > 0 {
			s := work[len(work)-1]
			work = work[:len(work)-1]
			addSym(s)
		}
	}
	work = append(work, tokenize(goalText)...)
	drain()
	// declared symbols of each assert, through definitions (memoised per definition)
	defDeps := map[string][]string{}
	var depsOf func(sym string, depth int) []string
	depsOf = func(sym string, depth int) []string {
		if _, ok := declared[sym]; ok {
			return []string{sym}
		}
		i, ok := defined[sym]
		if !ok {
			return nil
		}
		if d, ok := defDeps[sym]; ok {
			return d
		}
		defDeps[sym] = nil // cycle guard
		seen := map[string]bool{}
		var out []string
		for _, t := range infos[i].syms {
			for _, d := range depsOf(t, depth+1) {
				if !seen[d] {
					seen[d] = true
					out = append(out, d)
				}
			}
		}
		defDeps[sym] = out
		return out
	}
	type ainfo struct {
		idx    int
		consts []string
		funs   []string
	}
	var asserts []ainfo
	for i, li := range infos {
		if li.kind != "assert" {
			continue
		}
		a := ainfo{idx: i}
		seen := map[string]bool{}
		for _, t := range li.syms {
			for _, d := range depsOf(t, 0) {
				if seen[d] {
					continue
				}
				seen[d] = true
				if isConst[d] {
					a.consts = append(a.consts, d)
				} else {
					a.funs = append(a.funs, d)
				}
			}
		}
		asserts = append(asserts, a)
	}
	for changed := true; changed; {
		changed = false
		for _, a := range asserts {
			if needLine[a.idx] {
				continue
			}
			rel := false
			if len(a.consts) > 0 {
				for _, c := range a.consts {
					if needed[c] {
						rel = true
						break
					}
				}
			} else {
				for _, f := range a.funs {
					if needed[f] {
						rel = true
						break
					}
				}
			}
			if rel {
				needLine[a.idx] = true
				work = append(work, infos[a.idx].syms...)
				drain()
				changed = true
			}
		}
	}
	var out []string
	for i, li := range infos {
		if li.kind == "sort" || li.kind == "other" || needLine[i] {
			// helper define-funs with parameters (prelude) are "def" lines: include when needed only
			out = append(out, vc.lines[i].s)
		}
	}
	return out
}
