package main

// Translation of spec expressions (contract clauses) into SMT terms.
// Integers in specs are mathematical: Go integer values are lifted implicitly; in bv mode mathematical integers are
// bit-vectors whose width grows with every operation so that no spec-level operation can overflow (DESIGN 3.3).

import (
	"fmt"
	"os"
	"go/constant"
	"go/types"
	"math/big"
	"strconv"
	"strings"

	"golang.org/x/tools/go/ssa"
)

type sval struct {
	t     string
	typ   types.Type // Go type; nil for mathematical integers and untyped nil
	math  bool
	w     int      // bv width of a mathematical integer in bv mode
	lit   *big.Int // integer literal value if known
	isNil bool
	addr  string // address if this value was read from memory (for lvalue)
}

type specErr string

type specEnv struct {
	vc         *VC
	fn         *ssa.Function
	vars       map[string]sval
	st, old    *State
	override   map[ssa.Value]string
	fr         *frame
	loopHeader *ssa.BasicBlock
	declFile   *Decl
	typeOnly   bool
	depth      int
	bound      []string
	nowSt      *State
	nowOverride map[ssa.Value]string
}

func (vc *VC) newSpecEnv(fn *ssa.Function, st, old *State) *specEnv {
	return &specEnv{vc: vc, fn: fn, vars: map[string]sval{}, st: st, old: old}
}

func (e *specEnv) fail(f string, a ...interface{}) {
	panic(specErr(fmt.Sprintf(f, a...)))
}

func (e *specEnv) clone() *specEnv {
	n := *e
	n.vars = map[string]sval{}
	for k, v := range e.vars {
		n.vars[k] = v
	}
	return &n
}

// trBool translates a boolean spec expression; translation errors become an unprovable term and are recorded.
func (e *specEnv) trBool(x Expr) (res string) {
	defer func() {
		if r := recover(); r != nil {
			if se, ok := r.(specErr); ok {
				e.vc.specErrors = append(e.vc.specErrors, fmt.Sprintf("%s: %s", x.String(), string(se)))
				res = e.vc.freshConst("specerror", "Bool")
				return
			}
			panic(r)
		}
	}()
	v := e.tr(x)
	if v.typ == nil || !isBool(v.typ) {
		e.fail("expected a boolean expression")
	}
	return v.t
}

// tryBool translates a clause; ok=false when it mentions identifiers unknown in this environment
func (e *specEnv) tryBool(x Expr) (res string, ok bool) {
	defer func() {
		if r := recover(); r != nil {
			if se, isSpec := r.(specErr); isSpec && (strings.Contains(string(se), "unknown identifier") || strings.Contains(string(se), "needs int mode")) {
				res, ok = "", false
				return
			}
			panic(r)
		}
	}()
	v := e.tr(x)
	if v.typ == nil || !isBool(v.typ) {
		e.fail("expected a boolean expression")
	}
	return v.t, true
}

var boolT = types.Typ[types.Bool]
var f64T = types.Typ[types.Float64]

func (e *specEnv) pkg() *types.Package {
	if e.fn != nil {
		if e.fn.Pkg != nil {
			return e.fn.Pkg.Pkg
		}
		if e.fn.Parent() != nil {
			p := e.fn
			for p.Parent() != nil {
				p = p.Parent()
			}
			if p.Pkg != nil {
				return p.Pkg.Pkg
			}
		}
	}
	return e.vc.P.Pkgs[enginePath].Pkg
}

// ghostFieldType: one named integer type per ghost field, so that each ghost field gets its own heap class
func (P *Program) ghostFieldType(name string) types.Type {
	if P.ghostTypes == nil {
		P.ghostTypes = map[string]types.Type{}
	}
	if t, ok := P.ghostTypes[name]; ok {
		return t
	}
	t := types.NewNamed(types.NewTypeName(0, nil, "ghost_"+name, nil), types.Typ[types.Int], nil)
	P.ghostTypes[name] = t
	return t
}

func (P *Program) namedType(name string) types.Type {
	for _, path := range []string{enginePath, rootPath} {
		if o := P.Pkgs[path].Pkg.Scope().Lookup(name); o != nil {
			if tn, ok := o.(*types.TypeName); ok {
				return tn.Type()
			}
		}
	}
	return nil
}

func (e *specEnv) resolveType(s string) types.Type {
	s = strings.TrimSpace(s)
	if strings.HasPrefix(s, "ghost_") {
		return e.vc.P.ghostFieldType(strings.TrimPrefix(s, "ghost_"))
	}
	if strings.HasPrefix(s, "*") {
		t := e.resolveType(s[1:])
		if t == nil {
			return nil
		}
		return types.NewPointer(t)
	}
	if strings.HasPrefix(s, "[]") {
		t := e.resolveType(s[2:])
		if t == nil {
			return nil
		}
		return types.NewSlice(t)
	}
	if strings.HasPrefix(s, "map[") {
		depth, j := 0, -1
		for i := 3; i < len(s); i++ {
			if s[i] == '[' {
				depth++
			} else if s[i] == ']' {
				depth--
				if depth == 0 {
					j = i
					break
				}
			}
		}
		if j < 0 {
			return nil
		}
		k, v := e.resolveType(s[4:j]), e.resolveType(s[j+1:])
		if k == nil || v == nil {
			return nil
		}
		return types.NewMap(k, v)
	}
	if i := strings.Index(s, "."); i > 0 {
		pn, tn := s[:i], s[i+1:]
		for _, p := range e.vc.P.Prog.AllPackages() {
			if p.Pkg.Name() == pn || p.Pkg.Path() == pn {
				if o := p.Pkg.Scope().Lookup(tn); o != nil {
					if t, ok := o.(*types.TypeName); ok {
						return t.Type()
					}
				}
			}
		}
		return nil
	}
	if o := e.pkg().Scope().Lookup(s); o != nil {
		if tn, ok := o.(*types.TypeName); ok {
			return tn.Type()
		}
	}
	if t := e.vc.P.namedType(s); t != nil {
		return t
	}
	if o := types.Universe.Lookup(s); o != nil {
		if tn, ok := o.(*types.TypeName); ok {
			return tn.Type()
		}
	}
	return nil
}

// ---------------------------------------------------------------- mathematical integers

func minWidth(v *big.Int) int {
	// smallest n with -2^(n-1) <= v < 2^(n-1)
	n := 1
	for {
		lo := new(big.Int).Neg(pow2(n - 1))
		hi := pow2(n - 1)
		if v.Cmp(lo) >= 0 && v.Cmp(hi) < 0 {
			return n
		}
		n++
	}
}

func (e *specEnv) mlit(v *big.Int) sval {
	if e.vc.mode == modeInt {
		return sval{t: mathLit(v), math: true, lit: v}
	}
	w := minWidth(v)
	m := pow2(w)
	return sval{t: fmt.Sprintf("(_ bv%s %d)", new(big.Int).Mod(v, m).String(), w), math: true, w: w, lit: v}
}

func (e *specEnv) ext(v sval, w int) string {
	if v.w == w {
		return v.t
	}
	if v.w > w {
		e.fail("internal: cannot narrow mathematical integer")
	}
	return fmt.Sprintf("((_ sign_extend %d) %s)", w-v.w, v.t)
}

// toMath lifts a Go integer value (or passes a mathematical one through)
func (e *specEnv) toMath(v sval) sval {
	if v.math {
		return v
	}
	if v.typ == nil {
		e.fail("expected an integer")
	}
	w, signed, ok := intInfo(v.typ)
	if !ok {
		e.fail("expected an integer, found %s", v.typ)
	}
	if e.vc.mode == modeInt {
		return sval{t: v.t, math: true, lit: v.lit}
	}
	if signed {
		return sval{t: v.t, math: true, w: w, lit: v.lit}
	}
	return sval{t: fmt.Sprintf("((_ zero_extend 1) %s)", v.t), math: true, w: w + 1, lit: v.lit}
}

// toMathSigned: a value usable as w-bit pattern (Go-typed values keep their bits)
func (e *specEnv) toMathSigned(v sval, w int) sval {
	if v.math {
		return v
	}
	vw, _, _ := intInfo(v.typ)
	if vw != w {
		e.fail("bit operation on integers of different widths")
	}
	return sval{t: v.t, math: true, w: w}
}

func maxi(a, b int) int {
	if a > b {
		return a
	}
	return b
}

func (e *specEnv) checkW(w int) int {
	if w > 400 {
		e.fail("mathematical integer expression too wide for the bit-vector encoding (use enc int)")
	}
	return w
}

func (e *specEnv) marith(op string, a, b sval) sval {
	a, b = e.toMath(a), e.toMath(b)
	if e.vc.mode == modeInt {
		switch op {
		case "+", "-", "*":
			return sval{t: "(" + op + " " + a.t + " " + b.t + ")", math: true}
		case "div":
			return sval{t: "(div " + a.t + " " + b.t + ")", math: true}
		case "mod":
			return sval{t: "(mod " + a.t + " " + b.t + ")", math: true}
		case "tdiv", "trem", "fdiv", "fmod":
			return sval{t: "(" + op + " " + a.t + " " + b.t + ")", math: true}
		}
		e.fail("operator %s not available on mathematical integers in int mode", op)
	}
	switch op {
	case "+", "-":
		w := e.checkW(maxi(a.w, b.w) + 1)
		o := "bvadd"
		if op == "-" {
			o = "bvsub"
		}
		return sval{t: "(" + o + " " + e.ext(a, w) + " " + e.ext(b, w) + ")", math: true, w: w}
	case "*":
		w := e.checkW(a.w + b.w)
		return sval{t: "(bvmul " + e.ext(a, w) + " " + e.ext(b, w) + ")", math: true, w: w}
	case "tdiv", "trem", "fdiv", "fmod", "div", "mod":
		w := e.checkW(maxi(a.w, b.w) + 1)
		x, y := e.ext(a, w), e.ext(b, w)
		zero := fmt.Sprintf("(_ bv0 %d)", w)
		one := fmt.Sprintf("(_ bv1 %d)", w)
		q := "(bvsdiv " + x + " " + y + ")"
		r := "(bvsrem " + x + " " + y + ")"
		switch op {
		case "tdiv":
			return sval{t: q, math: true, w: w}
		case "trem":
			return sval{t: r, math: true, w: w}
		case "fdiv":
			// floor: q-1 when the remainder is non-zero and signs differ
			adj := fmt.Sprintf("(ite (and (not (= %s %s)) (xor (bvslt %s %s) (bvslt %s %s))) (bvsub %s %s) %s)", r, zero, x, zero, y, zero, q, one, q)
			return sval{t: adj, math: true, w: w}
		case "fmod":
			adj := fmt.Sprintf("(ite (and (not (= %s %s)) (xor (bvslt %s %s) (bvslt %s %s))) (bvadd %s %s) %s)", r, zero, x, zero, y, zero, r, y, r)
			return sval{t: adj, math: true, w: w}
		case "div": // SMT-LIB Euclidean division: remainder always >= 0
			adj := fmt.Sprintf("(ite (bvslt %s %s) (ite (bvsgt %s %s) (bvsub %s %s) (bvadd %s %s)) %s)", r, zero, y, zero, q, one, q, one, q)
			return sval{t: adj, math: true, w: w}
		case "mod":
			adj := fmt.Sprintf("(ite (bvslt %s %s) (ite (bvsgt %s %s) (bvadd %s %s) (bvsub %s %s)) %s)", r, zero, y, zero, r, y, r, y, r)
			return sval{t: adj, math: true, w: w}
		}
	}
	e.fail("operator %s not available on mathematical integers", op)
	return sval{}
}

func (e *specEnv) mcmp(op string, a, b sval) sval {
	a, b = e.toMath(a), e.toMath(b)
	if e.vc.mode == modeInt {
		o := op
		switch op {
		case "==":
			o = "="
		case "!=":
			return sval{t: "(not (= " + a.t + " " + b.t + "))", typ: boolT}
		}
		return sval{t: "(" + o + " " + a.t + " " + b.t + ")", typ: boolT}
	}
	w := maxi(a.w, b.w)
	x, y := e.ext(a, w), e.ext(b, w)
	switch op {
	case "==":
		return sval{t: "(= " + x + " " + y + ")", typ: boolT}
	case "!=":
		return sval{t: "(not (= " + x + " " + y + "))", typ: boolT}
	case "<":
		return sval{t: "(bvslt " + x + " " + y + ")", typ: boolT}
	case "<=":
		return sval{t: "(bvsle " + x + " " + y + ")", typ: boolT}
	case ">":
		return sval{t: "(bvsgt " + x + " " + y + ")", typ: boolT}
	case ">=":
		return sval{t: "(bvsge " + x + " " + y + ")", typ: boolT}
	}
	e.fail("bad comparison %s", op)
	return sval{}
}

func isIntLike(v sval) bool {
	if v.math {
		return true
	}
	if v.typ == nil {
		return false
	}
	_, _, ok := intInfo(v.typ)
	return ok
}

func isFloatVal(v sval) bool {
	if v.typ == nil {
		return false
	}
	_, ok := isFloat(v.typ)
	return ok
}

// coerce an integer literal to float when the other operand is a float
func (e *specEnv) toFloat(v sval) sval {
	if isFloatVal(v) {
		return v
	}
	if v.lit != nil {
		f, _ := new(big.Float).SetInt(v.lit).Float64()
		e.vc.usesFP = true
		return sval{t: floatLit(f, 64), typ: f64T}
	}
	e.fail("expected a float")
	return sval{}
}

// ---------------------------------------------------------------- main translation

// tr translates an expression; values read from memory get the range facts of their Go type (ground terms only)
func (e *specEnv) tr(x Expr) sval {
	v := e.tr0(x)
	if v.addr != "" && v.typ != nil && e.vc.mode == modeInt && !e.typeOnly && !strings.Contains(v.t, "?") {
		if w, signed, ok := intInfo(v.typ); ok {
			k := "range:" + v.t
			if e.vc.boxFacts == nil {
				e.vc.boxFacts = map[string]bool{}
			}
			if !e.vc.boxFacts[k] {
				e.vc.boxFacts[k] = true
				if signed {
					e.vc.assume(fmt.Sprintf("(inS%d %s)", w, v.t))
				} else {
					e.vc.assume(fmt.Sprintf("(inU%d %s)", w, v.t))
				}
			}
		}
	}
	return v
}

func (e *specEnv) tr0(x Expr) sval {
	switch n := x.(type) {
	case *ENum:
		return e.num(n.Text)
	case *EStr:
		return sval{t: e.vc.strLit(n.Val), typ: types.Typ[types.String]}
	case *EIdent:
		return e.ident(n.Name)
	case *EUnary:
		return e.unary(n)
	case *EBinary:
		return e.binary(n)
	case *ECall:
		return e.call(n)
	case *ESelect:
		return e.selectExpr(n)
	case *EIndex:
		return e.index(n)
	case *ESlice:
		return e.sliceExpr(n)
	case *EQuant:
		return e.quant(n)
	case *EIs:
		v := e.tr(n.X)
		t := e.resolveType(n.Typ)
		if t == nil {
			e.fail("unknown type %s", n.Typ)
		}
		if v.typ == nil || !isIface(v.typ) {
			e.fail("'is' needs an interface value")
		}
		if isIface(t) {
			return sval{t: e.vc.implTest(t, v.t), typ: boolT}
		}
		return sval{t: e.vc.hasTag(t, v.t), typ: boolT}
	case *EAs:
		v := e.tr(n.X)
		t := e.resolveType(n.Typ)
		if t == nil {
			e.fail("unknown type %s", n.Typ)
		}
		if v.typ != nil && isIface(v.typ) {
			if isIface(t) {
				return sval{t: v.t, typ: t}
			}
			return sval{t: e.vc.unbox(t, v.t), typ: t}
		}
		// conversion between Go types with the same representation
		if v.typ != nil && e.vc.sortOf(v.typ) == e.vc.sortOf(t) {
			return sval{t: v.t, typ: t}
		}
		if v.math {
			return e.fromMathTo(v, t)
		}
		e.fail("cannot convert %v to %s", v.typ, n.Typ)
	}
	e.fail("unsupported spec expression %T", x)
	return sval{}
}

func (e *specEnv) fromMathTo(v sval, t types.Type) sval {
	w, _, ok := intInfo(t)
	if !ok {
		e.fail("cannot convert integer to %s", t)
	}
	if e.vc.mode == modeInt {
		return sval{t: v.t, typ: t}
	}
	if v.w == w {
		return sval{t: v.t, typ: t}
	}
	if v.w < w {
		return sval{t: e.ext(v, w), typ: t}
	}
	return sval{t: fmt.Sprintf("((_ extract %d 0) %s)", w-1, v.t), typ: t}
}

func (e *specEnv) num(s string) sval {
	isHex := strings.HasPrefix(s, "0x") || strings.HasPrefix(s, "0X")
	if strings.ContainsAny(s, ".pP") || (!isHex && strings.ContainsAny(s, "eE")) {
		f, err := strconv.ParseFloat(s, 64)
		if err != nil {
			e.fail("bad float literal %s", s)
		}
		e.vc.usesFP = true
		return sval{t: floatLit(f, 64), typ: f64T}
	}
	v, ok := new(big.Int).SetString(s, 0)
	if !ok {
		e.fail("bad integer literal %s", s)
	}
	return e.mlit(v)
}

func (e *specEnv) ident(name string) sval {
	if v, ok := e.vars[name]; ok {
		if os.Getenv("VERIF_DEBUG") != "" {
			fmt.Fprintf(os.Stderr, "ident %s from vars: %q\n", name, v.t)
		}
		return v
	}
	switch name {
	case "true", "false":
		return sval{t: name, typ: boolT}
	case "nil":
		return sval{isNil: true, t: "0"}
	case "MEMCAP":
		e.vc.declare("MEMCAP", "Int")
		if e.vc.mode == modeInt {
			return sval{t: "MEMCAP", math: true}
		}
		e.fail("MEMCAP only in int mode")
	}
	if name == "$i" && e.fr != nil && e.loopHeader != nil {
		// the hidden index of a range loop (the index of the element processed last; -1 before the first)
		for _, in := range e.loopHeader.Instrs {
			if phi, ok := in.(*ssa.Phi); ok && phi.Comment == "rangeindex" {
				t := e.fr.val(phi)
				if e.override != nil {
					if o, ok := e.override[phi]; ok {
						t = o
					}
				}
				return sval{t: t, typ: phi.Type()}
			}
		}
		e.fail("$i: the loop is not a range loop")
	}
	if e.fr != nil {
		if v, ok := e.local(name); ok {
			if os.Getenv("VERIF_DEBUG") != "" {
				fmt.Fprintf(os.Stderr, "ident %s local: %q\n", name, v.t)
			}
			return v
		}
	}
	if os.Getenv("VERIF_DEBUG") != "" {
		fmt.Fprintf(os.Stderr, "ident %s -> package scope\n", name)
	}
	// package scope
	if o := e.pkg().Scope().Lookup(name); o != nil {
		return e.object(o)
	}
	for _, path := range []string{enginePath, rootPath} {
		if o := e.vc.P.Pkgs[path].Pkg.Scope().Lookup(name); o != nil {
			return e.object(o)
		}
	}
	e.fail("unknown identifier %s", name)
	return sval{}
}

func (e *specEnv) object(o types.Object) sval {
	vc := e.vc
	switch x := o.(type) {
	case *types.Const:
		return e.constant(x.Val(), x.Type())
	case *types.Var:
		p := vc.P.Pkgs[x.Pkg().Path()]
		if p == nil {
			e.fail("package of %s not loaded", x.Name())
		}
		g, ok := p.Members[x.Name()].(*ssa.Global)
		if !ok {
			e.fail("%s is not a package-level variable", x.Name())
		}
		if e.fr != nil {
			if t, ok := e.fr.globalConstLoad(g); ok {
				return sval{t: t, typ: x.Type(), addr: vc.globalAddr(g)}
			}
		} else {
			tmp := vc.newFrame(e.fn, "", 0)
			tmp.entry = e.st
			if t, ok := tmp.globalConstLoad(g); ok {
				return sval{t: t, typ: x.Type(), addr: vc.globalAddr(g)}
			}
		}
		addr := vc.globalAddr(g)
		return sval{t: vc.load(e.st, addr, x.Type()), typ: x.Type(), addr: addr}
	case *types.Func:
		return sval{t: fmt.Sprintf("%d", 1000000+vc.P.TypeID("fn:"+x.FullName())), typ: x.Type()}
	}
	e.fail("cannot use %s in a spec", o.Name())
	return sval{}
}

func (e *specEnv) constant(val constant.Value, t types.Type) sval {
	vc := e.vc
	if w, _, ok := intInfo(t); ok {
		bi, _ := new(big.Int).SetString(constant.ToInt(val).ExactString(), 10)
		if b, isB := t.(*types.Basic); isB && b.Info()&types.IsUntyped != 0 {
			return e.mlit(bi)
		}
		return sval{t: vc.intLit(bi, w), typ: t, lit: bi}
	}
	if _, ok := isFloat(t); ok {
		f, _ := constant.Float64Val(constant.ToFloat(val))
		vc.usesFP = true
		return sval{t: floatLit(f, 64), typ: f64T}
	}
	if isBool(t) {
		if constant.BoolVal(val) {
			return sval{t: "true", typ: boolT}
		}
		return sval{t: "false", typ: boolT}
	}
	if isString(t) {
		return sval{t: vc.strLit(constant.StringVal(val)), typ: types.Typ[types.String]}
	}
	e.fail("constant of type %s", t)
	return sval{}
}

// local resolves a source-level variable name of the function being verified
func (e *specEnv) local(name string) (sval, bool) {
	fr := e.fr
	get := func(v ssa.Value) string {
		if e.override != nil {
			if t, ok := e.override[v]; ok {
				return t
			}
		}
		return fr.val(v)
	}
	// address-taken local: load from its cell
	if cells := fr.localNames["&"+name]; len(cells) > 0 {
		uniq := cells[0]
		for _, c := range cells[1:] {
			if c != uniq {
				return sval{}, false
			}
		}
		et := uniq.Type().Underlying().(*types.Pointer).Elem()
		addr := get(uniq)
		return sval{t: e.vc.load(e.st, addr, et), typ: et, addr: addr}, true
	}
	// loop phi named like the variable
	if e.loopHeader != nil {
		for _, in := range e.loopHeader.Instrs {
			phi, ok := in.(*ssa.Phi)
			if !ok {
				break
			}
			if phi.Comment == name {
				return sval{t: get(phi), typ: phi.Type()}, true
			}
		}
	}
	vals := fr.localNames[name]
	if len(vals) == 0 {
		if ph := fr.localNames["#"+name]; len(ph) == 1 {
			return sval{t: get(ph[0]), typ: ph[0].Type()}, true
		}
		return sval{}, false
	}
	// prefer a value that does not depend on the loop (defined outside), else require uniqueness
	uniq := vals[0]
	for _, v := range vals[1:] {
		if v != uniq {
			// several SSA values for the same variable: if a phi of that name exists in an enclosing loop header use it
			if ph := fr.localNames["#"+name]; len(ph) == 1 {
				return sval{t: get(ph[0]), typ: ph[0].Type()}, true
			}
			return e.localTyped(name, nil), true // the definition that reaches this point
		}
	}
	if tup, ok := uniq.Type().(*types.Tuple); ok {
		_ = tup
		return sval{}, false
	}
	return sval{t: get(uniq), typ: uniq.Type()}, true
}

// localTyped resolves a source variable by name and type: the definition (DebugRef or named phi) whose block dominates
// the point of use and is deepest in the dominator tree (an approximation of the reaching definition; a variable
// assigned on one branch only gets a phi at the join, which is deeper than the definition before the branch).
func (e *specEnv) localTyped(name string, want types.Type) sval {
	fr := e.fr
	get := func(v ssa.Value) string {
		if e.override != nil {
			if t, ok := e.override[v]; ok {
				return t
			}
		}
		return fr.val(v)
	}
	use := e.loopHeader
	if use == nil {
		use = fr.curBlock
	}
	defBlock := func(v ssa.Value) *ssa.BasicBlock {
		if in, ok := v.(ssa.Instruction); ok {
			return in.Block()
		}
		return nil // parameters, constants: available everywhere
	}
	usable := func(v ssa.Value) bool {
		b := defBlock(v)
		return use == nil || b == nil || b == use || b.Dominates(use)
	}
	isNilConst := func(v ssa.Value) bool {
		c, ok := v.(*ssa.Const)
		return ok && c.Value == nil
	}
	var best *localRef
	// 1. a reference to the variable at or after the point of use whose value was defined before it: the variable still
	//    holds that value at the point of use (no phi in between, or the value would be the phi)
	for k := range fr.localRefs[name] {
		r := &fr.localRefs[name][k]
		if want != nil && !types.Identical(r.v.Type(), want) {
			continue
		}
		if isNilConst(r.v) || !usable(r.v) {
			continue
		}
		if use != nil && (r.block == use || use.Dominates(r.block)) {
			if _, isPhi := r.v.(*ssa.Phi); isPhi && r.block != use {
				continue
			}
			if best == nil || r.block == use || (best.block != use && r.block.Dominates(best.block)) {
				best = r
			}
		}
	}
	// 2. otherwise the deepest definition that dominates the point of use
	if best == nil {
		for k := range fr.localRefs[name] {
			r := &fr.localRefs[name][k]
			if want != nil && !types.Identical(r.v.Type(), want) {
				continue
			}
			if use != nil && !(r.block == use || r.block.Dominates(use)) {
				continue
			}
			if best == nil {
				best = r
				continue
			}
			if isNilConst(best.v) && !isNilConst(r.v) {
				best = r
				continue
			}
			if r.block == best.block {
				if r.ord > best.ord {
					best = r
				}
			} else if best.block.Dominates(r.block) {
				best = r
			}
		}
	}
	if os.Getenv("VERIF_DEBUG") != "" {
		ui := -1
		if use != nil {
			ui = use.Index
		}
		for _, r := range fr.localRefs[name] {
			fmt.Fprintf(os.Stderr, "  cand %s: %T %s block %d use %d usable %v dom %v best %v\n", name, r.v, r.v.Name(), r.block.Index, ui, usable(r.v), use != nil && use.Dominates(r.block), best != nil && best.v == r.v)
		}
	}
	if best == nil {
		e.fail("no definition of variable %s (type %v) reaches this point", name, want)
	}
	return sval{t: get(best.v), typ: best.v.Type()}
}

func (e *specEnv) unary(n *EUnary) sval {
	switch n.Op {
	case "!":
		v := e.tr(n.X)
		return sval{t: not(v.t), typ: boolT}
	case "-":
		v := e.tr(n.X)
		if isFloatVal(v) {
			return sval{t: "(fp.neg " + v.t + ")", typ: v.typ}
		}
		if v.lit != nil {
			return e.mlit(new(big.Int).Neg(v.lit))
		}
		return e.marith("-", e.mlit(big.NewInt(0)), v)
	case "^":
		v := e.tr(n.X)
		if e.vc.mode != modeBV || v.typ == nil {
			e.fail("bitwise complement in specs needs a Go-typed integer and the bv encoding")
		}
		return sval{t: "(bvnot " + v.t + ")", typ: v.typ}
	case "*":
		v := e.tr(n.X)
		p, ok := v.typ.Underlying().(*types.Pointer)
		if !ok {
			e.fail("dereference of non-pointer")
		}
		return sval{t: e.vc.load(e.st, v.t, p.Elem()), typ: p.Elem(), addr: v.t}
	case "&":
		addr, t, ok := e.lvalue(n.X)
		if !ok {
			e.fail("cannot take the address of %s", n.X)
		}
		return sval{t: addr, typ: types.NewPointer(t)}
	}
	e.fail("unary %s", n.Op)
	return sval{}
}

func (e *specEnv) binary(n *EBinary) sval {
	switch n.Op {
	case "&&", "||", "==>", "<==>":
		a, b := e.trBoolV(n.X), e.trBoolV(n.Y)
		switch n.Op {
		case "&&":
			return sval{t: and(a, b), typ: boolT}
		case "||":
			return sval{t: or(a, b), typ: boolT}
		case "==>":
			return sval{t: "(=> " + a + " " + b + ")", typ: boolT}
		default:
			return sval{t: "(= " + a + " " + b + ")", typ: boolT}
		}
	}
	a, b := e.tr(n.X), e.tr(n.Y)
	switch n.Op {
	case "&", "|", "^", "&^":
		if !isIntLike(a) || !isIntLike(b) {
			e.fail("bit operation on non-integers")
		}
		if e.vc.mode != modeBV {
			e.fail("bit operations in specs need the bv encoding")
		}
		t := a.typ
		if t == nil {
			t = b.typ
		}
		if t == nil {
			e.fail("bit operation needs at least one Go-typed operand")
		}
		w, _, _ := intInfo(t)
		x, y := e.fromMathTo(e.toMathSigned(a, w), t).t, e.fromMathTo(e.toMathSigned(b, w), t).t
		switch n.Op {
		case "&":
			return sval{t: "(bvand " + x + " " + y + ")", typ: t}
		case "|":
			return sval{t: "(bvor " + x + " " + y + ")", typ: t}
		case "^":
			return sval{t: "(bvxor " + x + " " + y + ")", typ: t}
		default:
			return sval{t: "(bvand " + x + " (bvnot " + y + "))", typ: t}
		}
	case "+", "-", "*", "/", "div", "mod", "%":
		if isFloatVal(a) || isFloatVal(b) {
			a, b = e.toFloat(a), e.toFloat(b)
			op := map[string]string{"+": "fp.add", "-": "fp.sub", "*": "fp.mul", "/": "fp.div"}[n.Op]
			if op == "" {
				e.fail("operator %s on floats", n.Op)
			}
			return sval{t: "(" + op + " RNE " + a.t + " " + b.t + ")", typ: f64T}
		}
		if a.typ != nil && isString(a.typ) && n.Op == "+" {
			e.vc.declareFun("sconcat", []string{"Str", "Str"}, "Str")
			return sval{t: "(sconcat " + a.t + " " + b.t + ")", typ: a.typ}
		}
		op := n.Op
		if op == "/" {
			op = "tdiv"
		}
		if op == "%" {
			op = "trem"
		}
		if a.lit != nil && b.lit != nil {
			switch op {
			case "+":
				return e.mlit(new(big.Int).Add(a.lit, b.lit))
			case "-":
				return e.mlit(new(big.Int).Sub(a.lit, b.lit))
			case "*":
				return e.mlit(new(big.Int).Mul(a.lit, b.lit))
			}
		}
		return e.marith(op, a, b)
	case "<<":
		// 2^s scaling with a literal or bounded shift: only literals supported mathematically
		if b.lit != nil {
			return e.marith("*", a, e.mlit(pow2(int(b.lit.Int64()))))
		}
		e.fail("shift by a non-literal in a spec: use shl(x, s)")
	case "==", "!=", "<", "<=", ">", ">=":
		return e.compare(n.Op, a, b)
	}
	e.fail("binary %s", n.Op)
	return sval{}
}

func (e *specEnv) trBoolV(x Expr) string {
	v := e.tr(x)
	if v.typ == nil || !isBool(v.typ) {
		e.fail("expected boolean: %s", x)
	}
	return v.t
}

func (e *specEnv) compare(op string, a, b sval) sval {
	vc := e.vc
	if isFloatVal(a) || isFloatVal(b) {
		a, b = e.toFloat(a), e.toFloat(b)
		o := map[string]string{"==": "fp.eq", "<": "fp.lt", "<=": "fp.leq", ">": "fp.gt", ">=": "fp.geq"}[op]
		if op == "!=" {
			return sval{t: "(not (fp.eq " + a.t + " " + b.t + "))", typ: boolT}
		}
		return sval{t: "(" + o + " " + a.t + " " + b.t + ")", typ: boolT}
	}
	if isIntLike(a) && isIntLike(b) {
		return e.mcmp(op, a, b)
	}
	if op != "==" && op != "!=" {
		if a.typ != nil && isString(a.typ) {
			vc.declareFun("scmp", []string{"Str", "Str"}, "Int")
			return sval{t: "(" + op + " (scmp " + a.t + " " + b.t + ") 0)", typ: boolT}
		}
		e.fail("ordering comparison on non-numeric values")
	}
	var eq string
	switch {
	case a.isNil && b.isNil:
		eq = "true"
	case a.isNil || b.isNil:
		o := a
		if a.isNil {
			o = b
		}
		if o.typ == nil {
			e.fail("nil compared with untyped value")
		}
		if isIface(o.typ) {
			eq = "(= (tag " + o.t + ") 0)"
		} else if _, isSl := o.typ.Underlying().(*types.Slice); isSl {
			eq = "(= (s_arr " + o.t + ") 0)"
		} else {
			eq = "(= " + o.t + " 0)"
		}
	case a.typ != nil && b.typ != nil && isIface(a.typ) && !isIface(b.typ):
		eq = "(= " + a.t + " " + vc.box(b.typ, b.t) + ")"
	case a.typ != nil && b.typ != nil && !isIface(a.typ) && isIface(b.typ):
		eq = "(= " + vc.box(a.typ, a.t) + " " + b.t + ")"
	case a.typ != nil && isIface(a.typ) && b.math:
		e.fail("comparison of an interface with an untyped integer: convert explicitly")
	default:
		if a.typ != nil && b.typ != nil && vc.sortOf(a.typ) != vc.sortOf(b.typ) {
			e.fail("comparison of %s with %s", a.typ, b.typ)
		}
		eq = "(= " + a.t + " " + b.t + ")"
	}
	if op == "!=" {
		return sval{t: not(eq), typ: boolT}
	}
	return sval{t: eq, typ: boolT}
}

func (e *specEnv) selectExpr(n *ESelect) sval {
	vc := e.vc
	// package-qualified constant/variable
	if id, ok := n.X.(*EIdent); ok {
		if _, isVar := e.vars[id.Name]; !isVar {
			if _, isLocal := e.tryLocal(id.Name); !isLocal {
				for _, p := range vc.P.Prog.AllPackages() {
					if p.Pkg.Name() == id.Name {
						if o := p.Pkg.Scope().Lookup(n.Name); o != nil {
							if c, ok := o.(*types.Const); ok {
								return e.constant(c.Val(), c.Type())
							}
							if _, isVar := o.(*types.Var); isVar || p.Pkg.Path() == enginePath || p.Pkg.Path() == rootPath {
								return e.object(o)
							}
						}
					}
				}
			}
		}
	}
	v := e.tr(n.X)
	if v.typ == nil {
		e.fail("selector on untyped value")
	}
	if n.Name == "$tag" {
		return sval{t: "(tag " + v.t + ")", math: true}
	}
	t := v.typ
	if p, ok := t.Underlying().(*types.Pointer); ok {
		st, ok := p.Elem().Underlying().(*types.Struct)
		if !ok {
			e.fail("field selection through pointer to non-struct")
		}
		idx, ft, path := findField(p.Elem(), st, n.Name)
		if idx < 0 {
			e.fail("no field %s in %s", n.Name, p.Elem())
		}
		addr := v.t
		cur := p.Elem()
		for _, i := range path {
			addr = vc.fieldAddr(cur, i, addr)
			cur = cur.Underlying().(*types.Struct).Field(i).Type()
		}
		if e.typeOnly {
			return sval{t: "0", typ: ft, addr: addr}
		}
		return sval{t: vc.load(e.st, addr, ft), typ: ft, addr: addr}
	}
	if st, ok := t.Underlying().(*types.Struct); ok {
		idx, ft, path := findField(t, st, n.Name)
		if idx < 0 {
			e.fail("no field %s in %s", n.Name, t)
		}
		term := v.t
		cur := t
		addr := v.addr
		for _, i := range path {
			cs := cur.Underlying().(*types.Struct)
			term = "(" + vc.fieldAcc(vc.sortOf(cur), cs, i) + " " + term + ")"
			if addr != "" {
				addr = vc.fieldAddr(cur, i, addr)
			}
			cur = cs.Field(i).Type()
		}
		return sval{t: term, typ: ft, addr: addr}
	}
	e.fail("selector .%s on %s", n.Name, t)
	return sval{}
}

func (e *specEnv) tryLocal(name string) (v sval, ok bool) {
	if e.fr == nil {
		return sval{}, false
	}
	defer func() {
		if r := recover(); r != nil {
			ok = true // ambiguous but exists
		}
	}()
	return e.local(name)
}

// findField returns the field (possibly promoted through embedded structs) and the index path to it
func findField(t types.Type, st *types.Struct, name string) (int, types.Type, []int) {
	for i := 0; i < st.NumFields(); i++ {
		if st.Field(i).Name() == name {
			return i, st.Field(i).Type(), []int{i}
		}
	}
	for i := 0; i < st.NumFields(); i++ {
		f := st.Field(i)
		if f.Embedded() {
			if es, ok := f.Type().Underlying().(*types.Struct); ok {
				if j, ft, p := findField(f.Type(), es, name); j >= 0 {
					return j, ft, append([]int{i}, p...)
				}
			}
		}
	}
	return -1, nil, nil
}

func (e *specEnv) mathInt(v sval) string {
	// mathematical Int term (sort Int) for memory indices
	m := e.toMath(v)
	if e.vc.mode == modeInt {
		return m.t
	}
	if m.lit != nil {
		return mathLit(m.lit)
	}
	// signed bv -> Int
	return fmt.Sprintf("(let ((u (bv2nat %s))) (ite (bvslt %s (_ bv0 %d)) (- u %s) u))", m.t, m.t, m.w, pow2(m.w).String())
}

func (e *specEnv) goIntFromInt(term string) sval {
	// an Int-sorted memory quantity (length, index) as a spec integer
	if e.vc.mode == modeInt {
		return sval{t: term, math: true}
	}
	return sval{t: "((_ int2bv 64) " + term + ")", math: true, w: 64}
}

func (e *specEnv) index(n *EIndex) sval {
	vc := e.vc
	v := e.tr(n.X)
	if v.typ == nil {
		e.fail("index of untyped value")
	}
	switch t := v.typ.Underlying().(type) {
	case *types.Slice:
		i := e.mathInt(e.tr(n.I))
		addr := vc.sliceElem(v.t, i)
		return sval{t: vc.load(e.st, addr, t.Elem()), typ: t.Elem(), addr: addr}
	case *types.Array:
		i := e.mathInt(e.tr(n.I))
		r := sval{t: "(select " + v.t + " " + i + ")", typ: t.Elem()}
		if v.addr != "" {
			r.addr = vc.ea(v.addr, i)
		}
		return r
	case *types.Pointer:
		if arr, ok := t.Elem().Underlying().(*types.Array); ok {
			i := e.mathInt(e.tr(n.I))
			addr := vc.ea(v.t, i)
			return sval{t: vc.load(e.st, addr, arr.Elem()), typ: arr.Elem(), addr: addr}
		}
	case *types.Map:
		k := e.tr(n.I)
		kt := e.coerceTo(k, t.Key())
		c := vc.mapClass(v.typ)
		opt := vc.optSort(t.Elem())
		cell := fmt.Sprintf("(select (select %s %s) %s)", vc.heapOf(e.st, c), v.t, kt)
		return sval{t: fmt.Sprintf("(ite (and (not (= %s 0)) ((_ is some_%s) %s)) (val_%s %s) %s)", v.t, opt, cell, opt, cell, vc.zero(t.Elem())), typ: t.Elem()}
	case *types.Basic:
		if isString(v.typ) {
			i := e.mathInt(e.tr(n.I))
			vc.declareFun("sidx", []string{"Str", "Int"}, vc.intSort(8))
			return sval{t: "(sidx " + v.t + " " + i + ")", typ: types.Typ[types.Uint8]}
		}
	}
	e.fail("cannot index %s", v.typ)
	return sval{}
}

// coerceTo renders a spec value as a Go value of type t
func (e *specEnv) coerceTo(v sval, t types.Type) string {
	if v.isNil {
		return e.vc.zero(t)
	}
	if v.math {
		return e.fromMathTo(v, t).t
	}
	if v.typ != nil && isIface(t) && !isIface(v.typ) {
		return e.vc.box(v.typ, v.t)
	}
	if v.typ != nil {
		if _, ok := isFloat(t); ok {
			return e.toFloat(v).t
		}
	}
	return v.t
}

func (e *specEnv) sliceExpr(n *ESlice) sval {
	v := e.tr(n.X)
	if _, ok := v.typ.Underlying().(*types.Slice); !ok {
		e.fail("slice expression on non-slice")
	}
	lo := "0"
	if n.Lo != nil {
		lo = e.mathInt(e.tr(n.Lo))
	}
	hi := "(s_len " + v.t + ")"
	if n.Hi != nil {
		hi = e.mathInt(e.tr(n.Hi))
	}
	return sval{t: fmt.Sprintf("(mk_slice (s_arr %s) (+ (s_off %s) %s) (- %s %s) (- (s_cap %s) %s))", v.t, v.t, lo, hi, lo, v.t, lo), typ: v.typ}
}

func (e *specEnv) quant(n *EQuant) sval {
	vc := e.vc
	env := e.clone()
	var binders []string
	var ranges []string
	for _, qv := range n.Vars {
		name := fmt.Sprintf("|%s?%d|", qv.Name, vc.n)
		vc.n++
		switch qv.Typ {
		case "int":
			if vc.mode == modeInt {
				binders = append(binders, "("+name+" Int)")
				env.vars[qv.Name] = sval{t: name, math: true}
			} else {
				binders = append(binders, "("+name+" (_ BitVec 64))")
				env.vars[qv.Name] = sval{t: name, math: true, w: 64}
			}
		case "ref":
			binders = append(binders, "("+name+" Int)")
			env.vars[qv.Name] = sval{t: name, typ: types.Typ[types.UnsafePointer]}
		default:
			t := e.resolveType(qv.Typ)
			if t == nil {
				e.fail("unknown type %s of bound variable", qv.Typ)
			}
			binders = append(binders, "("+name+" "+vc.sortOf(t)+")")
			env.vars[qv.Name] = sval{t: name, typ: t}
			if w, signed, ok := intInfo(t); ok && vc.mode == modeInt {
				if signed {
					ranges = append(ranges, fmt.Sprintf("(inS%d %s)", w, name))
				} else {
					ranges = append(ranges, fmt.Sprintf("(inU%d %s)", w, name))
				}
			}
			if isIface(t) {
				if f := vc.ifaceTypeFact(t, name); f != "" {
					ranges = append(ranges, f)
				}
			}
			// bound variables range over valid values of their type (declared type invariants)
			for _, inv := range vc.P.typeInvFor(t) {
				ienv := vc.newSpecEnv(e.fn, e.st, e.old)
				ienv.vars["self"] = sval{t: name, typ: t}
				ranges = append(ranges, ienv.trBoolV(inv.Body))
			}
		}
	}
	// explicit trigger: forall x :: triggered(t1, ..., body) instantiates the quantifier on the terms t1, ... (a multi-pattern)
	explicitPats := ""
	if c, ok := n.Body.(*ECall); ok {
		if id, ok := c.Fun.(*EIdent); ok && id.Name == "triggered" && len(c.Args) >= 2 {
			var ps []string
			for _, a := range c.Args[:len(c.Args)-1] {
				ps = append(ps, env.tr(a).t)
			}
			explicitPats = ":pattern (" + strings.Join(ps, " ") + ")"
			n = &EQuant{Forall: n.Forall, Vars: n.Vars, Body: c.Args[len(c.Args)-1]}
		}
	}
	body := env.trBoolV(n.Body)
	q := "forall"
	if !n.Forall {
		q = "exists"
	}
	if len(ranges) > 0 {
		if n.Forall {
			body = "(=> " + and(ranges...) + " " + body + ")"
		} else {
			body = and(append(ranges, body)...)
		}
	}
	// triggers: for every bound variable a smallest term (select G v) / (ea G (+ off v)) whose other arguments are ground;
	// without them the solver's own choice made proofs over nested map/array rows unstable
	var bnames []string
	for _, qv := range n.Vars {
		bnames = append(bnames, env.vars[qv.Name].t)
	}
	if explicitPats != "" && n.Forall {
		return sval{t: "(" + q + " (" + strings.Join(binders, " ") + ") (! " + body + " " + explicitPats + "))", typ: boolT}
	}
	if pats := choosePatterns(body, bnames); pats != "" && n.Forall && autoPatterns {
		return sval{t: "(" + q + " (" + strings.Join(binders, " ") + ") (! " + body + " " + pats + "))", typ: boolT}
	}
	return sval{t: "(" + q + " (" + strings.Join(binders, " ") + ") " + body + ")", typ: boolT}
}

// autoPatterns: explicit triggers made the operator-table proofs worse than the solvers' own choice; kept off
var autoPatterns = false

// choosePatterns returns ":pattern (...)" clauses: alternatives, each a multi-pattern covering all bound variables
func choosePatterns(body string, bound []string) string {
	nodes := parseSx(body)
	if len(nodes) != 1 {
		return ""
	}
	isBound := map[string]bool{}
	for _, b := range bound {
		isBound[b] = true
	}
	var mentions func(n *sx) map[string]bool
	memo := map[*sx]map[string]bool{}
	mentions = func(n *sx) map[string]bool {
		if m, ok := memo[n]; ok {
			return m
		}
		m := map[string]bool{}
		if n.leaf {
			if isBound[n.atom] {
				m[n.atom] = true
			}
		} else {
			for _, c := range n.list {
				for k := range mentions(c) {
					m[k] = true
				}
			}
		}
		memo[n] = m
		return m
	}
	// candidate terms per bound variable
	cands := map[string][]string{}
	seen := map[string]bool{}
	var walk func(n *sx, underQuant bool)
	walk = func(n *sx, underQuant bool) {
		if n.leaf {
			return
		}
		if len(n.list) > 0 && n.list[0].leaf && (n.list[0].atom == "forall" || n.list[0].atom == "exists") {
			return // do not take triggers from nested quantifiers (they mention inner bound variables)
		}
		if len(n.list) == 3 && n.list[0].leaf && n.list[0].atom == "select" {
			// (select G v) with v a bound variable and G free of bound variables other than those already covered
			if n.list[2].leaf && isBound[n.list[2].atom] {
				t := n.String()
				if !seen[t] {
					seen[t] = true
					for k := range mentions(n) {
						cands[k] = append(cands[k], t)
					}
				}
			}
		}
		if len(n.list) == 3 && n.list[0].leaf && n.list[0].atom == "ea" && len(mentions(n.list[1])) == 0 {
			// (ea arr (+ off v))
			idx := n.list[2]
			if !idx.leaf && len(idx.list) == 3 && idx.list[0].atom == "+" && idx.list[2].leaf && isBound[idx.list[2].atom] && len(mentions(idx.list[1])) == 0 {
				t := n.String()
				if !seen[t] {
					seen[t] = true
					cands[idx.list[2].atom] = append(cands[idx.list[2].atom], t)
				}
			}
		}
		for _, c := range n.list {
			walk(c, underQuant)
		}
	}
	walk(nodes[0], false)
	// a multi-pattern: for each bound variable the first candidate that mentions only bound variables of this quantifier
	var parts []string
	covered := map[string]bool{}
	for _, b := range bound {
		if covered[b] {
			continue
		}
		if len(cands[b]) == 0 {
			return ""
		}
		// prefer a candidate covering several variables
		best := cands[b][0]
		for _, c := range cands[b] {
			if strings.Count(c, "?") > strings.Count(best, "?") {
				best = c
			}
		}
		parts = append(parts, best)
		for _, o := range bound {
			if strings.Contains(best, o) {
				covered[o] = true
			}
		}
	}
	if len(parts) == 0 {
		return ""
	}
	return ":pattern (" + strings.Join(parts, " ") + ")"
}

// lvalue: address and type of a memory location denoted by a spec expression
func (e *specEnv) lvalue(x Expr) (string, types.Type, bool) {
	switch n := x.(type) {
	case *EUnary:
		if n.Op == "*" {
			v := e.tr(n.X)
			if p, ok := v.typ.Underlying().(*types.Pointer); ok {
				return v.t, p.Elem(), true
			}
		}
	case *ESelect, *EIndex, *EIdent:
		v := e.tr(x)
		if v.addr != "" {
			return v.addr, v.typ, true
		}
	case *ECall:
		if id, ok := n.Fun.(*EIdent); ok && id.Name == "gf" {
			v := e.tr(x)
			return v.addr, v.typ, true
		}
	}
	return "", nil, false
}

// ---------------------------------------------------------------- calls in specs

func (e *specEnv) call(n *ECall) sval {
	vc := e.vc
	// post(f)(args...) / pre(f)(args...)
	if inner, ok := n.Fun.(*ECall); ok {
		if id, ok := inner.Fun.(*EIdent); ok && (id.Name == "post" || id.Name == "pre") && len(inner.Args) == 1 {
			return e.contractOf(id.Name, inner.Args[0].String(), n.Args)
		}
	}
	name := ""
	switch f := n.Fun.(type) {
	case *EIdent:
		name = f.Name
	case *ESelect:
		// dotted name: pkg.Func, pkg.Type.Method
		var parts []string
		var cur Expr = f
		for {
			if sel, ok := cur.(*ESelect); ok {
				parts = append([]string{sel.Name}, parts...)
				cur = sel.X
				continue
			}
			if id, ok := cur.(*EIdent); ok {
				parts = append([]string{id.Name}, parts...)
				name = strings.Join(parts, ".")
			}
			break
		}
	}
	if name == "" {
		e.fail("unsupported call %s", n)
	}
	arg := func(i int) sval {
		if i >= len(n.Args) {
			e.fail("%s: too few arguments", name)
		}
		return e.tr(n.Args[i])
	}
	fl := func(i int) string { return e.toFloat(arg(i)).t }
	switch name {
	case "old":
		env := e.clone()
		env.st = e.old
		env.nowSt = e.st
		env.nowOverride = e.override
		env.override = nil
		return env.tr(n.Args[0])
	case "now": // inside old(...): back to the current state
		if e.nowSt == nil {
			return e.tr(n.Args[0])
		}
		env := e.clone()
		env.st = e.nowSt
		env.override = e.nowOverride
		env.nowSt = nil
		return env.tr(n.Args[0])
	case "ite":
		c := e.trBoolV(n.Args[0])
		a, b := arg(1), arg(2)
		if isIntLike(a) && isIntLike(b) {
			a, b = e.toMath(a), e.toMath(b)
			if vc.mode == modeInt {
				return sval{t: "(ite " + c + " " + a.t + " " + b.t + ")", math: true}
			}
			w := maxi(a.w, b.w)
			return sval{t: "(ite " + c + " " + e.ext(a, w) + " " + e.ext(b, w) + ")", math: true, w: w}
		}
		if isFloatVal(a) || isFloatVal(b) {
			a, b = e.toFloat(a), e.toFloat(b)
		}
		t := a.typ
		if t == nil {
			t = b.typ
		}
		at, bt := a.t, b.t
		if a.isNil {
			at = vc.zero(t)
		}
		if b.isNil {
			bt = vc.zero(t)
		}
		if a.typ != nil && b.typ != nil && isIface(a.typ) != isIface(b.typ) {
			if isIface(a.typ) {
				bt = vc.box(b.typ, b.t)
			} else {
				at = vc.box(a.typ, a.t)
				t = b.typ
			}
		}
		return sval{t: "(ite " + c + " " + at + " " + bt + ")", typ: t}
	case "len", "cap":
		v := arg(0)
		switch t := v.typ.Underlying().(type) {
		case *types.Slice:
			if name == "len" {
				return e.goIntFromInt("(s_len " + v.t + ")")
			}
			return e.goIntFromInt("(s_cap " + v.t + ")")
		case *types.Basic:
			return e.goIntFromInt("(slen " + v.t + ")")
		case *types.Array:
			return e.mlit(big.NewInt(t.Len()))
		}
		e.fail("len of %s", v.typ)
	case "int":
		v := arg(0)
		return e.toMath(v)
	case "f64":
		v := arg(0)
		if isFloatVal(v) {
			return sval{t: v.t, typ: f64T}
		}
		vc.usesFP = true
		if v.lit != nil {
			return e.toFloat(v)
		}
		if v.math {
			if vc.mode == modeBV {
				return sval{t: "((_ to_fp 11 53) RNE " + v.t + ")", typ: f64T}
			}
			vc.declareFun("i2f64", []string{"Int"}, sortF64)
			return sval{t: "(i2f64 " + v.t + ")", typ: f64T}
		}
		_, signed, ok := intInfo(v.typ)
		if !ok {
			e.fail("f64 of %s", v.typ)
		}
		if vc.mode == modeBV {
			if signed {
				return sval{t: "((_ to_fp 11 53) RNE " + v.t + ")", typ: f64T}
			}
			return sval{t: "((_ to_fp_unsigned 11 53) RNE " + v.t + ")", typ: f64T}
		}
		vc.declareFun("i2f64", []string{"Int"}, sortF64)
		return sval{t: "(i2f64 " + v.t + ")", typ: f64T}
	case "fp.isNaN", "fp.isInf", "fp.isZero", "fp.isNeg", "fp.isSubnormal":
		op := map[string]string{"fp.isNaN": "fp.isNaN", "fp.isInf": "fp.isInfinite", "fp.isZero": "fp.isZero", "fp.isNeg": "fp.isNegative", "fp.isSubnormal": "fp.isSubnormal"}[name]
		return sval{t: "(" + op + " " + fl(0) + ")", typ: boolT}
	case "fp.abs", "fp.neg":
		return sval{t: "(" + name + " " + fl(0) + ")", typ: f64T}
	case "fp.sqrt":
		return sval{t: "(fp.sqrt RNE " + fl(0) + ")", typ: f64T}
	case "fp.rti":
		mode, ok := n.Args[0].(*EIdent)
		if !ok {
			e.fail("fp.rti needs a rounding mode")
		}
		return sval{t: "(fp.roundToIntegral " + mode.Name + " " + fl(1) + ")", typ: f64T}
	case "fp.toInt": // RTZ conversion to a 64-bit integer (only meaningful in range)
		if vc.mode != modeBV {
			vc.declareFun("f2i64", []string{sortF64}, "Int")
			return sval{t: "(f2i64 " + fl(0) + ")", math: true}
		}
		return sval{t: "((_ fp.to_sbv 64) RTZ " + fl(0) + ")", math: true, w: 64}
	case "distinct":
		var ts []string
		for i := range n.Args {
			v := arg(i)
			if v.math {
				ts = append(ts, v.t)
			} else {
				ts = append(ts, v.t)
			}
		}
		return sval{t: "(distinct " + strings.Join(ts, " ") + ")", typ: boolT}
	case "same":
		a, b := arg(0), arg(1)
		return sval{t: "(= " + a.t + " " + b.t + ")", typ: boolT}
	case "tdiv", "trem", "fdiv", "fmod":
		return e.marith(name, arg(0), arg(1))
	case "pow2": // 2^s for a shift count s in 0..63
		s := e.toMath(arg(0))
		if s.lit != nil {
			return e.mlit(pow2(int(s.lit.Int64())))
		}
		if vc.mode != modeBV {
			e.fail("pow2 of a variable needs bv mode")
		}
		w := 66
		return sval{t: fmt.Sprintf("(bvshl (_ bv1 %d) %s)", w, e.ext(sval{t: s.t, w: s.w}, maxi(w, s.w))), math: true, w: w}
	case "runes": // []rune(s): the sequence of characters of a string (same uninterpreted conversion the code uses)
		v := arg(0)
		if v.typ == nil || !isString(v.typ) {
			e.fail("runes needs a string")
		}
		rt := types.NewSlice(types.Universe.Lookup("rune").Type())
		fn := "|conv_" + sanitize(types.TypeString(v.typ, nil)) + "_to_" + sanitize(types.TypeString(rt, nil)) + "|"
		vc.declareFun(fn, []string{"Str"}, "Slice")
		return sval{t: "(" + fn + " " + v.t + ")", typ: rt}
	case "wrap64": // the value a Go int64 computation of x yields (two's-complement wrap-around)
		x := e.toMath(arg(0))
		if vc.mode == modeInt {
			return sval{t: "(wrapS64 " + x.t + ")", math: true}
		}
		if x.w <= 64 {
			return sval{t: e.ext(x, 64), math: true, w: 64}
		}
		return sval{t: fmt.Sprintf("((_ extract 63 0) %s)", x.t), math: true, w: 64}
	case "shl": // shl(x, s) = x * 2^s for a shift count 0 <= s <= 63 (mathematical, never overflows)
		x, sft := e.toMath(arg(0)), e.toMath(arg(1))
		if sft.lit != nil {
			return e.marith("*", x, e.mlit(pow2(int(sft.lit.Int64()))))
		}
		if vc.mode != modeBV {
			e.fail("shl by a variable needs bv mode")
		}
		w := e.checkW(x.w + 64)
		if sft.w > w {
			e.fail("shl: shift count too wide")
		}
		return sval{t: "(bvshl " + e.ext(x, w) + " " + e.ext(sft, w) + ")", math: true, w: w}
	case "addr":
		a, _, ok := e.lvalue(n.Args[0])
		if !ok {
			e.fail("addr of a non-lvalue")
		}
		return sval{t: a, typ: types.Typ[types.UnsafePointer]}
	case "gf": // gf(name, ref): ghost field `name` of the object ref (an integer cell that exists only in the proof)
		id, ok := n.Args[0].(*EIdent)
		if !ok || len(n.Args) != 2 {
			e.fail("gf(name, ref)")
		}
		ref := arg(1)
		gt := vc.P.ghostFieldType(id.Name)
		return sval{t: vc.load(e.st, ref.t, gt), typ: gt, addr: ref.t}
	case "backing": // the backing array of a slice (as a reference)
		v := arg(0)
		if _, ok := v.typ.Underlying().(*types.Slice); !ok {
			e.fail("backing needs a slice")
		}
		return sval{t: "(s_arr " + v.t + ")", typ: types.Typ[types.UnsafePointer]}
	case "offset":
		v := arg(0)
		if _, ok := v.typ.Underlying().(*types.Slice); !ok {
			e.fail("offset needs a slice")
		}
		return e.goIntFromInt("(s_off " + v.t + ")")
	case "fresh": // the object was allocated during the call (not allocated in the old state)
		v := arg(0)
		r := v.t
		if _, ok := v.typ.Underlying().(*types.Slice); ok {
			r = "(s_arr " + v.t + ")"
		}
		return sval{t: "(> (base " + r + ") " + e.old.hw + ")", typ: boolT}
	case "allocated":
		v := arg(0)
		return sval{t: "(<= (base " + v.t + ") " + e.st.hw + ")", typ: boolT}
	case "has": // has(m, k): key present in map
		m := arg(0)
		mt, ok := m.typ.Underlying().(*types.Map)
		if !ok {
			e.fail("has needs a map")
		}
		k := e.coerceTo(arg(1), mt.Key())
		c := vc.mapClass(m.typ)
		opt := vc.optSort(mt.Elem())
		return sval{t: fmt.Sprintf("(and (not (= %s 0)) ((_ is some_%s) (select (select %s %s) %s)))", m.t, opt, vc.heapOf(e.st, c), m.t, k), typ: boolT}
	case "ghost":
		id, ok := n.Args[0].(*EIdent)
		var key string
		if ok {
			key = id.Name
		} else if s, ok := n.Args[0].(*EStr); ok {
			key = s.Val
		}
		g, declared := vc.P.Ghosts[key]
		if !declared {
			g = &GhostDecl{Name: key, Sort: "Int", Init: "0"}
		}
		t := ghostGet(e.st, key, g.Init)
		if g.Sort == "Bool" {
			return sval{t: t, typ: boolT}
		}
		if vc.mode == modeInt {
			return sval{t: t, math: true}
		}
		return sval{t: "((_ int2bv 64) " + t + ")", math: true, w: 64}
	case "local": // local(name, Type): the source variable of that name and type (disambiguates shadowed names)
		id, ok := n.Args[0].(*EIdent)
		if !ok || len(n.Args) != 2 || e.fr == nil {
			e.fail("local(name, Type) is only available in contracts of the function itself")
		}
		want := e.resolveType(n.Args[1].String())
		if want == nil {
			e.fail("local: unknown type %s", n.Args[1])
		}
		return e.localTyped(id.Name, want)
	case "received": // received(chan): the value of the function's last receive on that channel (field or variable name)
		id, ok := n.Args[0].(*EIdent)
		if !ok || len(n.Args) != 1 {
			e.fail("received(channel name)")
		}
		v, ok := e.vars["recv$"+id.Name]
		if !ok {
			e.fail("received(%s): no receive on that channel has been encoded on a path to this point", id.Name)
		}
		return v
	case "param": // param(i): the i-th parameter of the function under contract, whatever it is called in the source
		num, ok := n.Args[0].(*ENum)
		if !ok || len(n.Args) != 1 || e.fr == nil {
			e.fail("param(index) is only available in contracts of the function itself")
		}
		idx, _ := strconv.Atoi(num.Text)
		root := e.fr.rootFr
		if root == nil {
			root = e.fr
		}
		if idx < 0 || idx >= len(root.fn.Params) {
			e.fail("param(%d): the function has %d parameters", idx, len(root.fn.Params))
		}
		p := root.fn.Params[idx]
		return sval{t: root.vals[p], typ: p.Type()}
	case "called": // called(x): the call whose results are bound to x (bind clause) was executed on this path
		id, ok := n.Args[0].(*EIdent)
		if !ok {
			e.fail("called needs a bound name")
		}
		v, ok := e.vars[id.Name+"$called"]
		if !ok {
			return sval{t: "false", typ: boolT} // the call has not been encoded (yet) on any path reaching this point
		}
		return v
	case "argof":
		id, ok := n.Args[0].(*EIdent)
		idx, ok2 := n.Args[1].(*ENum)
		if !ok || !ok2 {
			e.fail("argof(name, index)")
		}
		v, ok := e.vars[id.Name+"$a"+idx.Text]
		if !ok {
			e.fail("argof: %s has no argument %s bound here", id.Name, idx.Text)
		}
		return v
	case "kcalls":
		t := ghostGet(e.st, "$kcalls", "0")
		return e.goIntFromInt(t)
	}
	// spec functions: macro expansion
	if d, ok := vc.P.SpecFuns[name]; ok {
		return e.expandSpecFun(d, n.Args)
	}
	// a program or library function declared `pure` + `deterministic` used as a spec function: f(args)
	if fn := vc.P.ResolveFunc(e.pkg().Name(), name); fn != nil {
		if d := vc.P.contractFor(fn); d != nil && d.Has("pure") && d.Has("deterministic") {
			return e.pureCall(fn, d, n.Args)
		}
	}
	// an interface method declared pure + deterministic: Compound.Arity(c), Term.Compare(a, b, env)
	for _, k := range []string{name, "engine." + name, "prolog." + name} {
		if d, ok := vc.P.Funcs[k]; ok && d.Has("pure") && d.Has("deterministic") && vc.P.fnByKey[k] == nil {
			if sig, recvT := vc.P.ifaceMethodSig(k); sig != nil {
				return e.pureIfaceCall(d, sig, recvT, n.Args)
			}
		}
	}
	if d, ok := vc.P.Externs[name]; ok && d.Has("pure") && d.Has("deterministic") {
		if fn := vc.P.findExtern(name); fn != nil {
			return e.pureCall(fn, d, n.Args)
		}
	}
	e.fail("unknown spec function %s", name)
	return sval{}
}

// abstract spec function: uninterpreted
func (e *specEnv) abstractSpecFun(d *Decl, args []Expr) sval {
	vc := e.vc
	if len(args) != len(d.Params) {
		e.fail("spec abstract %s: expected %d arguments", d.Name, len(d.Params))
	}
	var sorts, terms []string
	for i, p := range d.Params {
		v := e.tr(args[i])
		if p.Typ == "int" {
			if vc.mode != modeInt {
				e.fail("spec abstract %s with int parameter needs int mode", d.Name)
			}
			sorts = append(sorts, "Int")
			terms = append(terms, e.toMath(v).t)
			continue
		}
		t := e.resolveType(p.Typ)
		if t == nil {
			e.fail("spec abstract %s: unknown type %s", d.Name, p.Typ)
		}
		sorts = append(sorts, vc.sortOf(t))
		terms = append(terms, e.coerceTo(v, t))
	}
	name := "|spec_" + d.Name + "|"
	if d.RetTyp == "int" {
		if vc.mode != modeInt {
			e.fail("spec abstract %s returning int needs int mode", d.Name)
		}
		vc.declareFun(name, sorts, "Int")
		return sval{t: "(" + name + " " + strings.Join(terms, " ") + ")", math: true}
	}
	rt := e.resolveType(d.RetTyp)
	if rt == nil {
		e.fail("spec abstract %s: unknown result type %s", d.Name, d.RetTyp)
	}
	vc.declareFun(name, sorts, vc.sortOf(rt))
	if len(terms) == 0 {
		return sval{t: name, typ: rt}
	}
	return sval{t: "(" + name + " " + strings.Join(terms, " ") + ")", typ: rt}
}

func (e *specEnv) expandSpecFun(d *Decl, args []Expr) sval {
	if d.Abstract {
		return e.abstractSpecFun(d, args)
	}
	if e.depth > 40 {
		e.fail("spec function expansion too deep (recursive spec fun %s?)", d.Name)
	}
	if len(args) != len(d.Params) {
		e.fail("spec fun %s: expected %d arguments", d.Name, len(d.Params))
	}
	env := e.vc.newSpecEnv(e.fn, e.st, e.old)
	env.depth = e.depth + 1
	env.fr = nil
	env.declFile = d
	for i, p := range d.Params {
		v := e.tr(args[i])
		switch p.Typ {
		case "int":
			v = e.toMath(v)
		case "float64":
			v = e.toFloat(v)
		default:
			t := e.resolveType(p.Typ)
			if t == nil {
				e.fail("spec fun %s: unknown parameter type %s", d.Name, p.Typ)
			}
			v = sval{t: e.coerceTo(v, t), typ: t}
		}
		env.vars[p.Name] = v
	}
	r := env.tr(d.Body)
	return r
}

// pureCall: a program function declared pure is an uninterpreted function of its arguments
func (e *specEnv) pureCall(fn *ssa.Function, d *Decl, args []Expr) sval {
	vc := e.vc
	if d.Has("trusted") {
		vc.usedTrusted[d.Name] = true
	}
	name := pureFnName(d.Name, 0)
	var sorts, terms []string
	sig := fn.Signature
	ptypes := []types.Type{}
	if sig.Recv() != nil {
		ptypes = append(ptypes, sig.Recv().Type())
	}
	for i := 0; i < sig.Params().Len(); i++ {
		ptypes = append(ptypes, sig.Params().At(i).Type())
	}
	if len(args) != len(ptypes) {
		e.fail("%s: expected %d arguments", fnKey(fn), len(ptypes))
	}
	for i, a := range args {
		sorts = append(sorts, vc.sortOf(ptypes[i]))
		terms = append(terms, e.coerceTo(e.tr(a), ptypes[i]))
	}
	rt := sig.Results().At(0).Type()
	vc.declareFun(name, sorts, vc.sortOf(rt))
	return sval{t: "(" + name + " " + strings.Join(terms, " ") + ")", typ: rt}
}

// ifaceMethodSig: signature and interface type for a key like "engine.Compound.Arity"
func (P *Program) ifaceMethodSig(key string) (*types.Signature, types.Type) {
	parts := strings.Split(key, ".")
	if len(parts) != 3 {
		return nil, nil
	}
	for _, path := range []string{enginePath, rootPath} {
		pkg := P.Pkgs[path].Pkg
		if pkg.Name() != parts[0] {
			continue
		}
		o := pkg.Scope().Lookup(parts[1])
		if o == nil {
			continue
		}
		it, ok := o.Type().Underlying().(*types.Interface)
		if !ok {
			continue
		}
		for i := 0; i < it.NumMethods(); i++ {
			if it.Method(i).Name() == parts[2] {
				return it.Method(i).Type().(*types.Signature), o.Type()
			}
		}
	}
	return nil, nil
}

func (e *specEnv) pureIfaceCall(d *Decl, sig *types.Signature, recvT types.Type, args []Expr) sval {
	vc := e.vc
	if d.Has("trusted") {
		vc.usedTrusted[d.Name] = true
	}
	ptypes := []types.Type{recvT}
	for i := 0; i < sig.Params().Len(); i++ {
		ptypes = append(ptypes, sig.Params().At(i).Type())
	}
	if len(args) != len(ptypes) {
		e.fail("%s: expected %d arguments (receiver first)", d.Name, len(ptypes))
	}
	var sorts, terms []string
	for i, a := range args {
		sorts = append(sorts, vc.sortOf(ptypes[i]))
		terms = append(terms, e.coerceTo(e.tr(a), ptypes[i]))
	}
	rt := sig.Results().At(0).Type()
	name := pureFnName(d.Name, 0)
	vc.declareFun(name, sorts, vc.sortOf(rt))
	return sval{t: "(" + name + " " + strings.Join(terms, " ") + ")", typ: rt}
}

// contractOf expands post(f)(params..., results...) / pre(f)(params...)
func (e *specEnv) contractOf(which, fname string, args []Expr) sval {
	vc := e.vc
	fn := vc.P.ResolveFunc(e.pkg().Name(), fname)
	var d *Decl
	if fn != nil {
		d = vc.P.contractFor(fn)
	}
	if d == nil {
		e.fail("%s(%s): no such contract", which, fname)
	}
	names := fnParamNames(fn)
	env := vc.newSpecEnv(fn, e.st, e.old)
	env.depth = e.depth + 1
	env.declFile = d
	sig := fn.Signature
	nres := sig.Results().Len()
	want := len(names)
	if which == "post" {
		want += nres
	}
	if len(args) != want {
		e.fail("%s(%s): expected %d arguments", which, fname, want)
	}
	ptypes := []types.Type{}
	for _, p := range fn.Params {
		ptypes = append(ptypes, p.Type())
	}
	for i, nme := range names {
		v := e.tr(args[i])
		env.vars[nme] = sval{t: e.coerceTo(v, ptypes[i]), typ: ptypes[i]}
	}
	var conj []string
	if which == "post" {
		var res []string
		for i := 0; i < nres; i++ {
			v := e.tr(args[len(names)+i])
			res = append(res, e.coerceTo(v, sig.Results().At(i).Type()))
		}
		bindResults(env, fn, sig, res)
		for _, c := range d.Get("ensures") {
			conj = append(conj, env.trBoolV(c.E))
		}
	} else {
		for _, c := range d.Get("requires") {
			conj = append(conj, env.trBoolV(c.E))
		}
	}
	return sval{t: and(conj...), typ: boolT}
}
