package main

import (
	"regexp"
	"fmt"
	"strconv"
	"go/token"
	"go/types"
	"sort"
	"strings"

	"golang.org/x/tools/go/ssa"
)

const maxInlineInstrs = 60
const maxInlineDepth = 4

func isContType(t types.Type) bool {
	n, ok := t.(*types.Named)
	return ok && n.Obj().Name() == "Cont" && n.Obj().Pkg() != nil && n.Obj().Pkg().Path() == enginePath
}

func (fr *frame) root() *frame {
	return fr.rootFr
}

func (fr *frame) setResult(v ssa.Value, results []string) {
	if v == nil {
		return
	}
	if _, ok := v.Type().(*types.Tuple); ok {
		fr.tuples[v] = results
		return
	}
	if len(results) == 1 {
		fr.set(v, results[0])
	}
}

func (fr *frame) freshResults(v ssa.Value, sig *types.Signature, st *State, g string, hint string, withInv bool) []string {
	vc := fr.vc
	var out []string
	for i := 0; i < sig.Results().Len(); i++ {
		t := sig.Results().At(i).Type()
		c := vc.freshConst(fmt.Sprintf("%s%s#r%d", fr.prefix, hint, i), vc.sortOf(t))
		for _, f := range fr.typeFacts(st, t, c, withInv) {
			vc.assumeG(g, f)
		}
		out = append(out, c)
	}
	return out
}

func (fr *frame) call(v ssa.Value, c *ssa.CallCommon, st *State, g string, isDeferred bool) {
	vc := fr.vc
	// local cells whose address this call receives are not protected from the callee's effects
	prevPassed := vc.passedToCurrentCall
	vc.passedToCurrentCall = func(lc localCell) bool {
		if prevPassed != nil && prevPassed(lc) {
			return true
		}
		a, ok := lc.alloc.(*ssa.Alloc)
		if !ok {
			return false
		}
		for _, arg := range c.Args {
			root := arg
			for {
				if fa, ok := root.(*ssa.FieldAddr); ok {
					root = fa.X
				} else if ia, ok := root.(*ssa.IndexAddr); ok {
					root = ia.X
				} else {
					break
				}
			}
			if root == ssa.Value(a) {
				return true
			}
		}
		if mc, ok := c.Value.(*ssa.MakeClosure); ok {
			for _, b := range mc.Bindings {
				if b == ssa.Value(a) {
					return true
				}
			}
		}
		return false
	}
	defer func() { vc.passedToCurrentCall = prevPassed }()
	pos := c.Pos()
	hint := "call"
	if v != nil {
		hint = v.Name()
	}
	sig := c.Signature()
	// ---- interface method call
	if c.IsInvoke() {
		recv := fr.val(c.Value)
		fr.hazard("nil", g, "(not (= (tag "+recv+") 0))", pos, "method call on nil interface")
		args := []string{recv}
		argT := []types.Type{c.Value.Type()}
		for _, a := range c.Args {
			args = append(args, fr.val(a))
			argT = append(argT, a.Type())
		}
		key := ifaceMethodKey(c.Value.Type(), c.Method.Name())
		d, ok := vc.P.Funcs[key]
		if !ok {
			d, ok = vc.P.Externs[key]
		}
		if ok {
			fr.applyContract(d, nil, c.Method.Type().(*types.Signature), append([]string{"self"}, paramNames(c.Method.Type().(*types.Signature))...), args, argT, c.Args, st, g, v, pos, key)
			return
		}
		res := fr.freshResults(v, sig, st, g, hint, false)
		fr.setResult(v, res)
		vc.note("interface method " + key + " without contract: result arbitrary, heap havocked")
		vc.havocAll(st, "invoke "+key)
		return
	}
	// ---- builtins
	if b, ok := c.Value.(*ssa.Builtin); ok {
		fr.builtin(v, b, c, st, g)
		return
	}
	var args []string
	var argT []types.Type
	for _, a := range c.Args {
		args = append(args, fr.val(a))
		argT = append(argT, a.Type())
	}
	// ---- continuation parameter
	if fr.isContValue(c.Value) {
		fr.contPoint(st, g, pos, "k", args)
		res := fr.freshResults(v, sig, st, g, hint, false)
		fr.setResult(v, res)
		vc.havocAll(st, "continuation")
		return
	}
	callee := c.StaticCallee()
	if callee == nil {
		// dynamic call through a function value
		fv := fr.val(c.Value)
		fr.hazard("nil", g, "(not (= "+fv+" 0))", pos, "call of nil function value")
		if n, ok := c.Value.Type().(*types.Named); ok {
			if d, ok := vc.P.FuncTypes[n.Obj().Name()]; ok {
				fr.applyContract(d, nil, sig, paramNames(sig), args, argT, c.Args, st, g, v, pos, "functype "+n.Obj().Name())
				return
			}
		}
		fr.dynamicCall(v, c, sig, st, g, fv, args, argT, hint)
		return
	}
	var ci *closureInfo
	if mc, ok := c.Value.(*ssa.MakeClosure); ok {
		ci = fr.closures[mc]
	}
	{
		ck := fnKey(callee)
		if callee.Pkg != nil && callee.Pkg.Pkg.Path() != enginePath && callee.Pkg.Pkg.Path() != rootPath {
			ck = externKey(callee)
		}
		fr.atCallClauses(ck, st, g, args, argT, pos)
	}
	// ---- contract
	if d := vc.P.contractFor(callee); d != nil && !d.Has("inline") {
		names := fnParamNames(callee)
		fr.applyContract(d, callee, callee.Signature, names, args, argT, c.Args, st, g, v, pos, d.Name)
		return
	}
	// ---- inline
	if fr.canInline(callee) {
		fr.inline(v, callee, args, c.Args, ci, st, g)
		return
	}
	// ---- unknown: havoc
	res := fr.freshResults(v, sig, st, g, hint, false)
	fr.setResult(v, res)
	k := callee.String()
	if pureExtern[k] {
		vc.note("call of " + k + " (no contract): result arbitrary; known not to touch program memory")
		return
	}
	// passing our continuation to an unknown function: it may be invoked
	for _, a := range c.Args {
		if fr.kparam != nil && a == fr.kparam {
			fr.contPoint(st, g, pos, k, nil)
		}
	}
	vc.note("call of " + k + " (no contract, not inlinable): result arbitrary, heap havocked")
	vc.havocAll(st, "call "+k)
}

// dynamicCall: a call through a function value. The enclosing contract may assert things about the callee value and
// the actual arguments (`at-call dynamic requires[label] e` over fn, a0, a1, ...) and may *assume* that the unknown
// callee leaves some locations alone (`assume-call preserves loc, elems(x)`; listed as an assumption in the evidence).
func (fr *frame) dynamicCall(v ssa.Value, c *ssa.CallCommon, sig *types.Signature, st *State, g, fv string, args []string, argT []types.Type, hint string) {
	vc := fr.vc
	root := fr.rootFr
	bindArgs := func(env *specEnv) {
		env.vars["fn"] = sval{t: fv, typ: c.Value.Type()}
		for i := range args {
			env.vars[fmt.Sprintf("a%d", i)] = sval{t: args[i], typ: argT[i]}
		}
	}
	if root.contract != nil {
		root.dynCalls++
		for _, cl := range root.contract.Get("at-call") {
			txt := strings.TrimSpace(cl.Text)
			if !strings.HasPrefix(txt, "dynamic") {
				continue
			}
			txt = strings.TrimSpace(strings.TrimPrefix(txt, "dynamic"))
			if strings.HasPrefix(txt, "#") { // dynamic#N: only the N-th call through a function value, in source order
				j := 1
				for j < len(txt) && txt[j] >= '0' && txt[j] <= '9' {
					j++
				}
				n, _ := strconv.Atoi(txt[1:j])
				txt = strings.TrimSpace(txt[j:])
				if fr.dynamicOrdinal(c.Pos()) != n {
					continue
				}
			}
			txt = strings.TrimSpace(strings.TrimPrefix(txt, "requires"))
			lab, body := splitLabel(txt)
			e, err := ParseExpr(body)
			if err != nil {
				vc.specErrors = append(vc.specErrors, "at-call dynamic: "+err.Error())
				continue
			}
			env := root.specEnvAt(st)
			bindArgs(env)
			vc.oblige("at-call", fmt.Sprintf("dynamic#%d:%s", root.dynCalls, lab), g, env.trBool(e), "at a call through a function value: "+body, root.props, posOf(fr.fn, c.Pos()))
		}
	}
	pre := st.clone()
	res := fr.freshResults(v, sig, st, g, hint, false)
	fr.setResult(v, res)
	vc.note("call through a function value: result arbitrary, heap havocked")
	vc.havocAll(st, "dynamic call")
	if root.contract != nil {
		for _, cl := range root.contract.Get("assume-call") {
			txt := strings.TrimSpace(cl.Text)
			if strings.HasPrefix(txt, "ensures") {
				body := strings.TrimSpace(strings.TrimPrefix(txt, "ensures"))
				e, err := ParseExpr(body)
				if err != nil {
					vc.specErrors = append(vc.specErrors, "assume-call ensures: "+err.Error())
					continue
				}
				vc.note("ASSUMED on " + root.contract.Name + ": every call through a function value ensures " + body)
				env := root.specEnvAt(st)
				bindArgs(env)
				if len(res) > 0 {
					env.vars["result"] = sval{t: res[0], typ: sig.Results().At(0).Type()}
				}
				vc.assumeG(g, env.trBool(e))
				continue
			}
			if !strings.HasPrefix(txt, "preserves") {
				continue
			}
			vc.note("ASSUMED on " + root.contract.Name + ": calls through function values preserve " + strings.TrimSpace(strings.TrimPrefix(txt, "preserves")))
			tmp := &Decl{Clauses: []*Clause{{Kind: "modifies", Text: strings.TrimSpace(strings.TrimPrefix(txt, "preserves"))}}}
			items, _, err := parseModifies(tmp)
			if err != nil {
				vc.specErrors = append(vc.specErrors, "assume-call preserves: "+err.Error())
				continue
			}
			env := root.specEnvAt(pre)
			for _, it := range items {
				switch it.kind {
				case "loc":
					addr, t, ok := env.lvalue(it.e)
					if !ok {
						vc.specErrors = append(vc.specErrors, "assume-call preserves "+it.e.String()+": not an lvalue")
						continue
					}
					fr.restoreLoc(pre, st, addr, t)
				case "elems":
					sv := env.tr(it.e)
					sl, ok := sv.typ.Underlying().(*types.Slice)
					if !ok {
						continue
					}
					for _, cls := range vc.classesOfType(sl.Elem()) {
						vc.assume(fmt.Sprintf("(forall ((a Int)) (! (=> (= (ea_arr a) (s_arr %s)) (= (select %s a) (select %s a))) :pattern ((select %s a))))", sv.t, vc.heapOf(st, cls), vc.heapOf(pre, cls), vc.heapOf(st, cls)))
					}
				case "class":
					if t := env.resolveType(it.typ); t != nil {
						for _, cls := range vc.classesOfType(t) {
							st.heap[cls] = vc.heapOf(pre, cls)
						}
					}
				}
			}
		}
	}
}

func (fr *frame) restoreLoc(pre, st *State, addr string, t types.Type) {
	vc := fr.vc
	switch u := t.Underlying().(type) {
	case *types.Struct:
		for i := 0; i < u.NumFields(); i++ {
			fr.restoreLoc(pre, st, vc.fieldAddr(t, i, addr), u.Field(i).Type())
		}
		return
	case *types.Array:
		for i := 0; i < int(u.Len()) && i < 32; i++ {
			fr.restoreLoc(pre, st, vc.ea(addr, fmt.Sprint(i)), u.Elem())
		}
		return
	}
	vc.store(st, addr, t, vc.load(pre, addr, t))
	if _, isMap := t.Underlying().(*types.Map); isMap {
		// the map object the location refers to keeps its content too
		mc := vc.mapClass(t)
		m := vc.load(pre, addr, t)
		st.heap[mc] = vc.define(vc.fresh(mc), vc.classSortByName(mc), "(store "+vc.heapOf(st, mc)+" "+m+" (select "+vc.heapOf(pre, mc)+" "+m+"))")
	}
}

// functions of the standard library that are known not to write program-visible memory (value-only arguments and results)
var pureExtern = map[string]bool{
	"math.Pow": true, "math.Exp": true, "math.Log": true, "math.Sin": true, "math.Cos": true, "math.Tan": true, "math.Atan": true, "math.Asin": true,
	"math.Acos": true, "math.Atan2": true, "math.Sqrt": true, "math.Mod": true, "math.Modf": true, "math.Float64bits": true, "math.Float64frombits": true,
	"unicode/utf8.RuneCountInString": true, "unicode/utf8.DecodeRuneInString": true, "unicode/utf8.DecodeLastRuneInString": true, "unicode/utf8.RuneLen": true,
	"unicode/utf8.ValidRune": true, "unicode/utf8.ValidString": true, "unicode/utf8.RuneError": true,
	"unicode.IsUpper": true, "unicode.IsLower": true, "unicode.IsLetter": true, "unicode.IsDigit": true, "unicode.IsSpace": true, "unicode.In": true,
	"strings.Compare": true, "strings.HasPrefix": true, "strings.HasSuffix": true, "strings.Contains": true, "strings.ContainsRune": true, "strings.Index": true,
	"strings.IndexRune": true, "strings.ToUpper": true, "strings.ToLower": true, "strings.TrimSpace": true, "strings.Repeat": true,
	"strconv.Itoa": true, "strconv.FormatInt": true, "strconv.FormatFloat": true, "strconv.Quote": true,
	"errors.New": true, "fmt.Sprintf": true, "fmt.Errorf": true, "fmt.Sprint": true,
	"errors.Is": true, "errors.As": false,
}

func ifaceMethodKey(t types.Type, m string) string {
	name := types.TypeString(t, func(p *types.Package) string { return p.Name() })
	return name + "." + m
}

func paramNames(sig *types.Signature) []string {
	var out []string
	for i := 0; i < sig.Params().Len(); i++ {
		n := sig.Params().At(i).Name()
		if n == "" || n == "_" {
			n = fmt.Sprintf("a%d", i)
		}
		out = append(out, n)
	}
	return out
}

func fnParamNames(fn *ssa.Function) []string {
	var out []string
	if len(fn.Params) > 0 {
		for i, p := range fn.Params {
			n := p.Name()
			if n == "" || n == "_" {
				n = fmt.Sprintf("a%d", i)
			}
			out = append(out, n)
		}
		return out
	}
	if r := fn.Signature.Recv(); r != nil {
		n := r.Name()
		if n == "" || n == "_" {
			n = "self"
		}
		out = append(out, n)
	}
	return append(out, paramNames(fn.Signature)...)
}

func (P *Program) contractFor(fn *ssa.Function) *Decl {
	if fn.Pkg != nil && (fn.Pkg.Pkg.Path() == enginePath || fn.Pkg.Pkg.Path() == rootPath) || fn.Parent() != nil {
		if d, ok := P.Funcs[fnKey(fn)]; ok {
			return d
		}
	}
	if d, ok := P.Externs[externKey(fn)]; ok {
		return d
	}
	return nil
}

func (fr *frame) canInline(fn *ssa.Function) bool {
	if len(fn.Blocks) == 0 || fr.depth >= maxInlineDepth {
		return false
	}
	if fn.Pkg == nil && fn.Parent() == nil {
		return false
	}
	if d, ok := fr.vc.P.Funcs[fnKey(fn)]; ok && d.Has("inline") {
		return true
	}
	// only functions of the two packages (and their closures)
	p := fn.Pkg
	if p == nil && fn.Parent() != nil {
		p = fn.Parent().Pkg
	}
	if p == nil || (p.Pkg.Path() != enginePath && p.Pkg.Path() != rootPath) {
		return false
	}
	n := 0
	for _, b := range fn.Blocks {
		n += len(b.Instrs)
	}
	if n > maxInlineInstrs {
		return false
	}
	if len(findLoops(fn)) > 0 {
		return false
	}
	if fn.Recover != nil {
		return false
	}
	for f := fr; f != nil; f = f.parent {
		if f.fn == fn {
			return false
		}
	}
	return true
}

func (fr *frame) inline(v ssa.Value, callee *ssa.Function, args []string, argVals []ssa.Value, ci *closureInfo, st *State, g string) {
	vc := fr.vc
	vc.n++
	child := vc.newFrame(callee, fmt.Sprintf("%si%d.", fr.prefix, vc.n), fr.depth+1)
	child.parent = fr
	child.rootFr = fr.rootFr
	child.props = fr.props
	child.nosafety = fr.nosafety
	child.contract = nil
	vc.inlined[fnKey(callee)] = true
	for i, p := range callee.Params {
		child.vals[p] = args[i]
		if fr.kparam != nil && i < len(argVals) && argVals[i] == fr.kparam {
			child.kparam = p
		}
		if i < len(argVals) {
			if mc, ok := argVals[i].(*ssa.MakeClosure); ok {
				if cinfo := fr.closures[mc]; cinfo != nil {
					child.closures[p] = cinfo
				}
			}
		}
	}
	if ci != nil {
		for i, fv := range callee.FreeVars {
			child.vals[fv] = ci.bindings[i]
			if fr.kparam != nil && ci.bvals[i] == fr.kparam {
				child.kparam = fv
			}
		}
	} else {
		for _, fv := range callee.FreeVars {
			child.vals[fv] = vc.freshConst(child.prefix+fv.Name(), vc.sortOf(fv.Type()))
		}
	}
	child.encodeBody(st, g)
	if len(child.rets) == 0 {
		vc.assumeG(g, "false") // callee never returns normally
		if v != nil {
			fr.havocVal(v, "noreturn")
		}
		return
	}
	// merge returns
	var states []*State
	var conds []string
	for _, r := range child.rets {
		states = append(states, r.st)
		conds = append(conds, r.guard)
	}
	merged := vc.merge(states, conds, child.prefix+"ret")
	*st = *merged
	nres := callee.Signature.Results().Len()
	var results []string
	for i := 0; i < nres; i++ {
		e := child.rets[len(child.rets)-1].vals[i]
		for j := len(child.rets) - 2; j >= 0; j-- {
			if child.rets[j].vals[i] != e {
				e = "(ite " + child.rets[j].guard + " " + child.rets[j].vals[i] + " " + e + ")"
			}
		}
		results = append(results, vc.define(vc.fresh(child.prefix+"res"+fmt.Sprint(i)), vc.sortOf(callee.Signature.Results().At(i).Type()), e))
	}
	fr.setResult(v, results)
}

// ---------------------------------------------------------------- contracts at call sites

type modItem struct {
	kind string // loc, elems, class, heap, nothing
	e    Expr
	typ  string
}

func parseModifies(d *Decl) (items []modItem, specified bool, err error) {
	for _, c := range d.Get("modifies") {
		specified = true
		for _, part := range splitTop(c.Text, ',') {
			part = strings.TrimSpace(part)
			switch {
			case part == "" || part == "nothing":
				continue
			case part == "heap":
				items = append(items, modItem{kind: "heap"})
			case strings.HasPrefix(part, "class "):
				items = append(items, modItem{kind: "class", typ: strings.TrimSpace(part[6:])})
			case strings.HasPrefix(part, "elems(") && strings.HasSuffix(part, ")"):
				e, err := ParseExpr(part[6 : len(part)-1])
				if err != nil {
					return nil, true, err
				}
				items = append(items, modItem{kind: "elems", e: e})
			default:
				e, err := ParseExpr(part)
				if err != nil {
					return nil, true, err
				}
				items = append(items, modItem{kind: "loc", e: e})
			}
		}
	}
	if d.Has("pure") {
		specified = true
	}
	return
}

func splitTop(s string, sep byte) []string {
	var out []string
	depth := 0
	last := 0
	for i := 0; i < len(s); i++ {
		switch s[i] {
		case '(', '[', '{':
			depth++
		case ')', ']', '}':
			depth--
		default:
			if s[i] == sep && depth == 0 {
				out = append(out, s[last:i])
				last = i + 1
			}
		}
	}
	return append(out, s[last:])
}

func (fr *frame) applyContract(d *Decl, callee *ssa.Function, sig *types.Signature, names []string, args []string, argT []types.Type, argVals []ssa.Value,
	st *State, g string, v ssa.Value, pos token.Pos, key string) {
	vc := fr.vc
	hint := "call"
	if v != nil {
		hint = v.Name()
	}
	if d.Kind == "extern" {
		vc.usedExtern[d.Name] = true
	} else if d.Has("trusted") || d.Has("assumed-post") {
		vc.usedTrusted[d.Name] = true
	} else if key != "" && !hasAnyProp(d.Props(), fr.rootFr.props) {
		// a contract proved by another property's check (or by none): this check relies on it
		vc.usedOther[d.Name] = true
	}
	fr.callOrd[key]++
	ord := fr.callOrd[key]
	if callee == nil {
		fr.atCallClauses(key, st, g, args, argT, pos)
	}
	ctxFn := callee
	if ctxFn == nil || ctxFn.Pkg == nil {
		ctxFn = fr.fn
	}
	pre := st.clone()
	env := vc.newSpecEnv(ctxFn, pre, pre)
	env.declFile = d
	for i, n := range names {
		if i < len(args) {
			env.vars[n] = sval{t: args[i], typ: argT[i]}
			env.vars[fmt.Sprintf("a%d", i)] = sval{t: args[i], typ: argT[i]}
		}
	}
	// let-bound names of the callee's contract (evaluated in the state before the call)
	for _, c := range d.Get("let") {
		if i := strings.Index(c.Text, "="); i >= 0 {
			if le, err := ParseExpr(c.Text[i+1:]); err == nil {
				// a let that speaks about names internal to the callee (a closure's captured variables) means nothing at
				// a call site: it is skipped, and so are the clauses that use it (tryBool)
				func() {
					defer func() {
						if r := recover(); r != nil {
							if se, ok := r.(specErr); ok && strings.Contains(string(se), "unknown identifier") {
								return
							}
							panic(r)
						}
					}()
					env.vars[strings.TrimSpace(c.Text[:i])] = env.tr(le)
				}()
			}
		}
	}
	// preconditions (only for functions of the program under contract; externs' requires too)
	safetyOnly := true
	for _, p := range d.Props() {
		if p != "C05" {
			safetyOnly = false
		}
	}
	for _, c := range d.Get("requires") {
		if fr.rootFr.nosafety && safetyOnly && d.Kind == "func" {
			vc.note("safety preconditions of " + key + " are not checked in " + vc.fn + " (declared nosafety)")
			continue
		}
		f := env.trBool(c.E)
		lab := fmt.Sprintf("%s%s#%d", fr.prefix, shortKey(key), ord)
		if c.Label != "" {
			lab += ":" + c.Label
		}
		fr.vc.oblige("pre@call", lab, g, f, "requires "+c.Text+" (callee "+key+")", fr.preOwner(), posOf(fr.fn, pos))
	}
	// type invariants of arguments
	if d.Kind == "func" {
		for i := range args {
			if i >= len(argT) {
				break
			}
			if isIface(argT[i]) {
				continue
			}
			for _, inv := range fr.invFacts(pre, argT[i], args[i]) {
				lab := fmt.Sprintf("%s%s#%d:arg%d", fr.prefix, shortKey(key), ord, i)
				fr.vc.oblige("typeinv@call", lab, g, inv, "type invariant of argument "+fmt.Sprint(i)+" of "+key, fr.props, posOf(fr.fn, pos))
			}
		}
	}
	// continuation passing
	if d.Has("calls") {
		for _, a := range argVals {
			if fr.isContValue(a) {
				fr.contPoint(st, g, pos, key, nil)
			}
		}
	}
	// the callee may allocate: values it leaves in memory or returns may be newer than anything allocated so far
	hwBefore := st.hw
	if d.Has("allocates") || !d.Has("pure") {
		nhw := vc.freshConst("hw", "Int")
		vc.assume("(>= " + nhw + " " + st.hw + ")")
		st.hw = nhw
	}
	// frame
	items, specified, err := parseModifies(d)
	if err != nil {
		vc.unsupported = append(vc.unsupported, "modifies clause of "+key+": "+err.Error())
		specified = false
	}
	if !specified {
		if d.Kind == "func" || refArgs(argT) {
			vc.note("callee " + key + " has no modifies clause: heap havocked at its call sites")
			vc.havocAll(st, key)
		}
	} else {
		fr.applyModifies(items, env, st, ctxFn)
	}
	// results
	var res []string
	if d.Has("pure") && d.Has("deterministic") {
		// a pure function of its argument values: the same uninterpreted function the specs use
		var sorts []string
		for _, t := range argT {
			sorts = append(sorts, vc.sortOf(t))
		}
		for i := 0; i < sig.Results().Len(); i++ {
			rt := sig.Results().At(i).Type()
			name := pureFnName(d.Name, i)
			vc.declareFun(name, sorts, vc.sortOf(rt))
			t := "(" + name + " " + strings.Join(args, " ") + ")"
			if len(args) == 0 {
				t = name
			}
			c := vc.define(vc.fresh(fr.prefix+hint+"#r"+fmt.Sprint(i)), vc.sortOf(rt), t)
			for _, f := range fr.typeFacts(st, rt, c, d.Kind == "func") {
				vc.assumeG(g, f)
			}
			res = append(res, c)
		}
	} else {
		res = fr.freshResults(v, sig, st, g, hint, true)
	}
	fr.setResult(v, res)
	post := vc.newSpecEnv(ctxFn, st, pre)
	post.declFile = d
	for k, x := range env.vars {
		post.vars[k] = x
	}
	bindResults(post, callee, sig, res)
	for _, c := range d.Get("ensures") {
		// a clause that speaks about the callee's internals (names bound by its `bind` clauses) means nothing to a caller: skipped
		if strings.Contains(c.Text, "ghost(") {
			// ghost counters are per activation: what the callee's counters end at says nothing about the caller's
			// (effects on the caller's ghost state are declared with ghost-set)
			vc.note("ensures[" + c.Label + "] of " + key + " speaks about the callee's ghost counters: not assumed by callers")
			continue
		}
		// names bound by the callee's own `bind` clauses (results of calls it makes) exist in the callee's activation only;
		// a clause that mentions one - also just as called(x), which would otherwise read as false here, or as the caller's
		// bind of the same name - is not assumed
		if n := mentionsBindName(d, c.Text); n != "" {
			vc.note("ensures[" + c.Label + "] of " + key + " speaks about " + n + ", a call the callee makes: not assumed by callers")
			continue
		}
		f, ok := post.tryBool(c.E)
		if !ok {
			vc.note("ensures[" + c.Label + "] of " + key + " refers to names internal to the callee: not available to callers")
			continue
		}
		vc.assumeG(g, f)
	}
	// objects of a `defined-by` type that the callee allocated and published have their view defined in the state it
	// returns in (same justification as the entry axiom: defined once at publication, immutable afterwards)
	if st.hw != hwBefore && vc.mode == modeInt {
		for tname, def := range vc.P.TypeDef {
			f := strings.Fields(def)
			nt := vc.P.namedType(tname)
			if len(f) < 4 || nt == nil || !vc.useAxiom["view:"+tname] {
				continue // this function does not speak about the view of T objects
			}
			ustr := f[0] + "(n$, q$)"
			if len(f) == 6 && f[4] == "inv" {
				ustr += " && " + f[5] + "(n$, q$)"
			}
			e, err := ParseExpr(ustr)
			e2, err2 := ParseExpr(f[2] + "(n$, q$)")
			e3, err3 := ParseExpr(f[3] + "(n$)")
			if err != nil || err2 != nil || err3 != nil {
				continue
			}
			vc.n++
			nb, qb := fmt.Sprintf("|n?pub%d|", vc.n), fmt.Sprintf("|q?pub%d|", vc.n)
			penv := vc.newSpecEnv(fr.fn, st, st)
			penv.vars["n$"] = sval{t: nb, typ: types.NewPointer(nt)}
			penv.vars["q$"] = sval{t: qb, math: true}
			body, ok1 := penv.tryBool(e)
			p1, p2 := penv.tr(e2).t, penv.tr(e3).t
			if !ok1 {
				continue
			}
			// instantiated for every marked object and every key that occurs in some view term (of any object)
			mb := fmt.Sprintf("|m?pub%d|", vc.n)
			p1 = strings.Replace(p1, nb, mb, 1)
			vc.assumeG(g, fmt.Sprintf("(forall ((%s Int) (%s Int) (%s Int)) (! (=> (and (> (base %s) %s) (<= (base %s) %s)) %s) :pattern (%s %s)))",
				nb, mb, qb, nb, hwBefore, nb, st.hw, body, p1, p2))
			vc.note("DEFINITION: " + tname + " objects allocated and published by a callee satisfy " + f[0] + " in the state the callee returns in")
		}
	}
	// `defines e`: the implementation *is* the abstract (interface-level) function at its receiver type; assumed at
	// call sites, not an obligation of the body (listed as an assumption)
	for _, c := range d.Get("defines") {
		vc.note("DEFINITIONAL on " + d.Name + ": " + c.Text)
		vc.assumeG(g, post.trBool(c.E))
	}
	// ghost updates declared by the callee: "ghost-set name value"
	for _, c := range d.Get("ghost-set") {
		f := strings.Fields(c.Text)
		if len(f) == 2 {
			val := f[1]
			if gd, ok := vc.P.Ghosts[f[0]]; ok && gd.Sort == "Bool" {
				if val == "0" {
					val = "false"
				} else if val == "1" {
					val = "true"
				}
			}
			cur := ghostGet(st, f[0], vc.ghostInit(f[0]))
			st.ghost[f[0]] = vc.define(vc.fresh("ghost_"+f[0]), vc.ghostSort(f[0]), "(ite "+g+" "+val+" "+cur+")")
		}
	}
	// bind clauses of the enclosing contract: name the results of the n-th call of key
	seq := fr.rootFr.callSeq(key)
	if fr == fr.rootFr {
		// calls of the function itself are numbered in source order, like at-call sites
		if n := fr.sourceOrdinal(key, pos); n > 0 {
			seq = n
		}
	} else {
		seq = -1 // a call inside an inlined callee is not one of the function's own call sites
	}
	fr.rootFr.recordBind(key, seq, res, sig, args, argT, g)
}

// atCallClauses: `at-call <callee> requires[label] e` of the enclosing contract, over a0, a1, ... (actual arguments,
// receiver first) and the caller's own names, evaluated in the state before the call.
func (fr *frame) atCallClauses(key string, st *State, g string, args []string, argT []types.Type, pos token.Pos) {
	root := fr.rootFr
	if root.contract == nil {
		return
	}
	// only the function's own calls (and those of closures it defines and runs itself), not calls made by inlined callees
	if fr != root && fr.fn.Parent() != root.fn {
		return
	}
	vc := fr.vc
	for _, cl := range root.contract.Get("at-call") {
		txt := strings.TrimSpace(cl.Text)
		if strings.HasPrefix(txt, "dynamic") {
			continue
		}
		i := strings.Index(txt, " requires")
		if i < 0 {
			continue
		}
		target := strings.TrimSpace(txt[:i])
		site := 0
		if j := strings.LastIndex(target, "#"); j > 0 {
			if n, err := strconv.Atoi(target[j+1:]); err == nil {
				site = n
				target = target[:j]
			}
		}
		if target != key && "engine."+target != key && "prolog."+target != key && shortKey(key) != target && !strings.HasSuffix(key, "."+target) {
			continue
		}
		if site > 0 && fr.sourceOrdinal(key, pos) != site {
			continue
		}
		lab, body := splitLabel(strings.TrimSpace(txt[i+len(" requires"):]))
		e, err := ParseExpr(body)
		if err != nil {
			vc.specErrors = append(vc.specErrors, "at-call "+target+": "+err.Error())
			continue
		}
		env := root.specEnvAt(st)
		for k := range args {
			env.vars[fmt.Sprintf("a%d", k)] = sval{t: args[k], typ: argT[k]}
		}
		root.atCallN++
		if root.atCallSeen == nil {
			root.atCallSeen = map[*Clause]bool{}
		}
		root.atCallSeen[cl] = true
		vc.oblige("at-call", fmt.Sprintf("%s#%d:%s", shortKey(key), root.atCallN, lab), g, env.trBool(e), "at the call of "+key+": "+body, root.props, posOf(fr.fn, pos))
	}
}

// sourceOrdinal: the 1-based rank, in source order, of the call at pos among the calls of the same callee in the
// function whose frame this is
func (fr *frame) sourceOrdinal(key string, pos token.Pos) int {
	var ps []token.Pos
	for _, b := range fr.fn.Blocks {
		for _, in := range b.Instrs {
			ci, ok := in.(ssa.CallInstruction)
			if !ok {
				continue
			}
			c := ci.Common()
			k := ""
			if callee := c.StaticCallee(); callee != nil {
				k = fnKey(callee)
				if callee.Pkg != nil && callee.Pkg.Pkg.Path() != enginePath && callee.Pkg.Pkg.Path() != rootPath {
					k = externKey(callee)
				}
			} else if c.IsInvoke() {
				k = ifaceMethodKey(c.Value.Type(), c.Method.Name())
			} else if b, ok := c.Value.(*ssa.Builtin); ok {
				k = b.Name()
			}
			if k == key {
				ps = append(ps, c.Pos())
			}
		}
	}
	sort.Slice(ps, func(i, j int) bool { return ps[i] < ps[j] })
	for i, p := range ps {
		if p == pos {
			return i + 1
		}
	}
	return 0
}

// dynamicOrdinal: rank in source order of a call through a function value among such calls of the function
func (fr *frame) dynamicOrdinal(pos token.Pos) int {
	var ps []token.Pos
	for _, b := range fr.fn.Blocks {
		for _, in := range b.Instrs {
			ci, ok := in.(ssa.CallInstruction)
			if !ok {
				continue
			}
			c := ci.Common()
			if c.IsInvoke() || c.StaticCallee() != nil {
				continue
			}
			if _, isB := c.Value.(*ssa.Builtin); isB {
				continue
			}
			ps = append(ps, c.Pos())
		}
	}
	sort.Slice(ps, func(i, j int) bool { return ps[i] < ps[j] })
	for i, p := range ps {
		if p == pos {
			return i + 1
		}
	}
	return 0
}

func pureFnName(declName string, i int) string {
	if i == 0 {
		return "|pure_" + declName + "|"
	}
	return fmt.Sprintf("|pure_%s#%d|", declName, i)
}

func shortKey(k string) string {
	if i := strings.Index(k, "."); i >= 0 && !strings.HasPrefix(k, "(") {
		return k[i+1:]
	}
	return k
}

func refArgs(ts []types.Type) bool {
	for _, t := range ts {
		switch t.Underlying().(type) {
		case *types.Pointer, *types.Map, *types.Slice, *types.Chan, *types.Interface, *types.Signature:
			return true
		}
	}
	return false
}

func (fr *frame) preOwner() []string {
	return fr.props
}

// invariants to be asserted of a value passed to a function under contract
func (fr *frame) invFacts(st *State, t types.Type, v string) []string {
	vc := fr.vc
	var out []string
	if isIface(t) {
		impls, _ := vc.P.Implementers(t)
		if len(impls) > 12 {
			impls = nil
			for k := range vc.P.TypeInvs {
				_ = k
			}
		}
		for _, it := range impls {
			for _, inv := range vc.P.typeInvFor(it) {
				out = append(out, implies(vc.hasTag(it, v), fr.typeInvTerm(inv, it, vc.unbox(it, v), st)))
			}
		}
		return out
	}
	for _, inv := range vc.P.typeInvFor(t) {
		out = append(out, fr.typeInvTerm(inv, t, v, st))
	}
	return out
}

func bindResults(env *specEnv, callee *ssa.Function, sig *types.Signature, res []string) {
	n := sig.Results().Len()
	for i := 0; i < n; i++ {
		rv := sig.Results().At(i)
		sv := sval{t: res[i], typ: rv.Type()}
		env.vars[fmt.Sprintf("result%d", i)] = sv
		if rv.Name() != "" && rv.Name() != "_" {
			env.vars[rv.Name()] = sv
		}
		if i == 0 {
			env.vars["result"] = sv
		}
		if i == n-1 && types.TypeString(rv.Type(), nil) == "error" {
			env.vars["err"] = sv
		}
		if i == n-1 && isBool(rv.Type()) && n > 1 {
			if _, ok := env.vars["ok"]; !ok {
				env.vars["ok"] = sv
			}
		}
	}
}

func (fr *frame) applyModifies(items []modItem, env *specEnv, st *State, ctxFn *ssa.Function) {
	vc := fr.vc
	for _, it := range items {
		switch it.kind {
		case "heap":
			vc.havocAll(st, "modifies heap")
		case "class":
			t := env.resolveType(it.typ)
			if t == nil {
				vc.unsupported = append(vc.unsupported, "modifies class "+it.typ+": unknown type")
				vc.havocAll(st, "modifies class ?")
				continue
			}
			for _, c := range vc.classesOfType(t) {
				vc.havocClass(st, c)
			}
		case "loc":
			addr, t, ok := env.lvalue(it.e)
			if !ok {
				vc.unsupported = append(vc.unsupported, "modifies item "+it.e.String()+": not an lvalue")
				vc.havocAll(st, "modifies ?")
				continue
			}
			fr.havocLoc(st, addr, t)
		case "elems":
			sv := env.tr(it.e)
			sl, ok := sv.typ.Underlying().(*types.Slice)
			if !ok {
				vc.unsupported = append(vc.unsupported, "modifies elems of non-slice")
				vc.havocAll(st, "modifies ?")
				continue
			}
			if _, isStruct := sl.Elem().Underlying().(*types.Struct); isStruct {
				vc.unsupported = append(vc.unsupported, "modifies elems of a slice of structs: everything havocked")
				vc.havocAll(st, "modifies elems of structs")
				continue
			}
			for _, c := range vc.classesOfType(sl.Elem()) {
				old := vc.heapOf(st, c)
				vc.havocClass(st, c)
				nw := st.heap[c]
				vc.assume(fmt.Sprintf("(forall ((a Int)) (! (=> (not (and (= (akind a) 1) (= (ea_arr a) (s_arr %s)))) (= (select %s a) (select %s a))) :pattern ((select %s a))))", sv.t, nw, old, nw))
			}
		}
	}
}

// havocLoc: the location of type t at addr gets an arbitrary (well-typed) value
func (fr *frame) havocLoc(st *State, addr string, t types.Type) {
	vc := fr.vc
	switch u := t.Underlying().(type) {
	case *types.Struct:
		for i := 0; i < u.NumFields(); i++ {
			fr.havocLoc(st, vc.fieldAddr(t, i, addr), u.Field(i).Type())
		}
		return
	case *types.Array:
		for i := 0; i < int(u.Len()) && i < 32; i++ {
			fr.havocLoc(st, vc.ea(addr, fmt.Sprint(i)), u.Elem())
		}
		return
	case *types.Map:
		// the content of the map object the location refers to may change as well as the reference
		mc := vc.mapClass(t)
		cur := vc.load(st, addr, t)
		h := vc.heapOf(st, mc)
		cont := vc.freshConst("mapcontent", vc.mapContentSort(u))
		st.heap[mc] = vc.define(vc.fresh(mc), vc.classSortByName(mc), "(store "+h+" "+cur+" "+cont+")")
	}
	nv := vc.freshConst("hv", vc.sortOf(t))
	for _, f := range fr.typeFacts(st, t, nv, true) {
		vc.assume(f)
	}
	vc.store(st, addr, t, nv)
}

// all heap classes a value of type t occupies when stored in memory
func (vc *VC) classesOfType(t types.Type) []string {
	switch u := t.Underlying().(type) {
	case *types.Struct:
		var out []string
		for i := 0; i < u.NumFields(); i++ {
			out = append(out, vc.classesOfType(u.Field(i).Type())...)
		}
		return out
	case *types.Array:
		return vc.classesOfType(u.Elem())
	}
	return []string{vc.className(t)}
}

// ---------------------------------------------------------------- continuation points

func (fr *frame) contPoint(st *State, g string, pos token.Pos, via string, kargs []string) {
	root := fr.rootFr
	vc := fr.vc
	root.kpoints++
	n := root.kpoints
	if root.contract != nil {
		for _, c := range root.contract.Get("onk") {
			env := root.specEnvAt(st)
			if len(kargs) > 0 {
				env.vars["kenv"] = sval{t: kargs[0], typ: types.NewPointer(vc.P.namedType("Env"))}
			}
			f := env.trBool(c.E)
			lab := fmt.Sprintf("%d", n)
			if c.Label != "" {
				lab = c.Label + "#" + lab
			}
			vc.oblige("onk", lab, g, f, "onk "+c.Text+" (continuation may run via "+via+")", root.props, posOf(fr.fn, pos))
		}
	}
	// no state-mutating defer may be pending while the continuation runs
	for _, d := range st.defers {
		if d.mutating {
			fr.hazardOwned("defer-k", g, "false", pos, "deferred "+d.desc+" mutates state and is still pending when the continuation may run (via "+via+")", root.props)
		}
	}
	cur := ghostGet(st, "$kcalls", "0")
	st.ghost["$kcalls"] = vc.define(vc.fresh("kcalls"), "Int", "(+ "+cur+" 1)")
}

func ghostGet(st *State, k, dflt string) string {
	if v, ok := st.ghost[k]; ok {
		return v
	}
	return dflt
}

func (fr *frame) hazardOwned(class, g, ok string, pos token.Pos, what string, props []string) {
	fr.hazardN[class]++
	fr.vc.oblige(class, fmt.Sprintf("%s%d", fr.prefix, fr.hazardN[class]), g, ok, what, props, posOf(fr.fn, pos))
}

// ---------------------------------------------------------------- defers

func (fr *frame) deferCall(x *ssa.Defer, st *State, g string) {
	c := x.Common()
	desc := "call"
	mut := true
	if callee := c.StaticCallee(); callee != nil {
		desc = fnKey(callee)
		// stores through a parameter whose actual argument is the address of one of our own local variables are not
		// visible to a continuation (e.g. ensurePromise(&promise) writing the named result)
		local := map[ssa.Value]bool{}
		for i, a := range c.Args {
			if al, ok := a.(*ssa.Alloc); ok && i < len(callee.Params) && !addrEscapesExceptDefer(al) {
				local[callee.Params[i]] = true
			}
		}
		fr.localParams = local
		mut = fr.mayMutate(callee, 0)
		fr.localParams = nil
	} else if c.IsInvoke() {
		desc = c.Method.Name()
	}
	// evaluate arguments now
	var args []string
	for _, a := range c.Args {
		args = append(args, fr.val(a))
	}
	st.defers = append(st.defers, deferred{desc: desc, mutating: mut, call: &deferredCall{instr: x, args: args, guard: g}})
}

type deferredCall struct {
	instr *ssa.Defer
	args  []string
	guard string
}

// mayMutate: does the function (or a callee) store to memory that outlives it?
func (fr *frame) mayMutate(fn *ssa.Function, depth int) bool {
	if d := fr.vc.P.contractFor(fn); d != nil {
		items, specified, _ := parseModifies(d)
		if specified {
			return len(items) > 0
		}
		return true
	}
	if pureExtern[fn.String()] {
		return false
	}
	if len(fn.Blocks) == 0 || depth > 3 {
		return true
	}
	for _, b := range fn.Blocks {
		for _, in := range b.Instrs {
			switch x := in.(type) {
			case *ssa.Store:
				root := x.Addr
				for {
					if fa, ok := root.(*ssa.FieldAddr); ok {
						root = fa.X
					} else if ia, ok := root.(*ssa.IndexAddr); ok {
						root = ia.X
					} else {
						break
					}
				}
				if _, local := root.(*ssa.Alloc); local {
					continue // initialisation of an object allocated here
				}
				if fr.localParams[root] {
					continue
				}
				// a store into a captured result variable (named result of the parent) is local to the activation
				if fv, ok := x.Addr.(*ssa.FreeVar); ok {
					_ = fv
					if isErrorPtr(x.Addr.Type()) {
						continue
					}
				}
				return true
			case *ssa.MapUpdate, *ssa.Send:
				return true
			case ssa.CallInstruction:
				c := x.Common()
				if b, ok := c.Value.(*ssa.Builtin); ok {
					if b.Name() == "recover" || b.Name() == "len" || b.Name() == "cap" {
						continue
					}
					return true
				}
				if callee := c.StaticCallee(); callee != nil {
					if fr.mayMutate(callee, depth+1) {
						return true
					}
					continue
				}
				return true
			}
		}
	}
	return false
}

func addrEscapesExceptDefer(a *ssa.Alloc) bool {
	return addrEscapes(a, map[ssa.Value]bool{}, 0)
}

func isErrorPtr(t types.Type) bool {
	p, ok := t.Underlying().(*types.Pointer)
	return ok && types.TypeString(p.Elem(), nil) == "error"
}

func (fr *frame) runDefers(st *State, g string) {
	ds := st.defers
	st.defers = nil
	for i := len(ds) - 1; i >= 0; i-- {
		dc := ds[i].call.(*deferredCall)
		// the deferred call runs only if its defer statement was executed
		fr.call(nil, dc.instr.Common(), st, and(g, dc.guard), true)
	}
}

// ---------------------------------------------------------------- builtins

func (fr *frame) builtin(v ssa.Value, b *ssa.Builtin, c *ssa.CallCommon, st *State, g string) {
	vc := fr.vc
	arg := func(i int) string { return fr.val(c.Args[i]) }
	goInt := func(e string) string { return fr.fromMath(e, 64, true) }
	switch b.Name() {
	case "len", "cap":
		a := arg(0)
		switch t := c.Args[0].Type().Underlying().(type) {
		case *types.Slice:
			if b.Name() == "len" {
				fr.set(v, goInt("(s_len "+a+")"))
			} else {
				fr.set(v, goInt("(s_cap "+a+")"))
			}
		case *types.Basic:
			fr.set(v, goInt("(slen "+a+")"))
		case *types.Array:
			fr.set(v, goInt(fmt.Sprint(t.Len())))
		case *types.Pointer:
			fr.set(v, goInt(fmt.Sprint(t.Elem().Underlying().(*types.Array).Len())))
		case *types.Map:
			vc.declareFun("mlen", []string{"Int"}, "Int")
			fr.havocVal(v, "maplen")
			fr.assumeTypeFacts(g, st, v.Type(), fr.vals[v])
			if vc.mode == modeInt {
				vc.assumeG(g, "(>= "+fr.vals[v]+" 0)")
			}
		default:
			fr.havocVal(v, "len")
			fr.assumeTypeFacts(g, st, v.Type(), fr.vals[v])
		}
	case "append":
		fr.atCallClauses("append", st, g, []string{arg(0), arg(1)}, []types.Type{c.Args[0].Type(), c.Args[1].Type()}, c.Pos())
		fr.appendBuiltin(v, c, st, g)
		// `bind x = append#n`: names the result of (and records the execution of) the function's n-th append
		if sig, ok := c.Value.Type().(*types.Signature); ok && v != nil && (fr == fr.rootFr) {
			if n := fr.sourceOrdinal("append", c.Pos()); n > 0 {
				fr.rootFr.recordBind("append", n, []string{fr.vals[v]}, sig, []string{arg(0), arg(1)}, []types.Type{c.Args[0].Type(), c.Args[1].Type()}, g)
			}
		}
	case "copy":
		// copy(dst, src): havoc dst elements
		dt := c.Args[0].Type().Underlying().(*types.Slice)
		for _, cl := range vc.classesOfType(dt.Elem()) {
			old := vc.heapOf(st, cl)
			vc.havocClass(st, cl)
			nw := st.heap[cl]
			vc.assume(fmt.Sprintf("(forall ((a Int)) (! (=> (not (and (= (akind a) 1) (= (ea_arr a) (s_arr %s)))) (= (select %s a) (select %s a))) :pattern ((select %s a))))", arg(0), nw, old, nw))
		}
		if v != nil {
			fr.havocVal(v, "copy")
			fr.assumeTypeFacts(g, st, v.Type(), fr.vals[v])
		}
	case "delete":
		m := arg(0)
		mt := c.Args[0].Type().Underlying().(*types.Map)
		cl := vc.mapClass(c.Args[0].Type())
		h := vc.heapOf(st, cl)
		opt := vc.optSort(mt.Elem())
		nh := fmt.Sprintf("(ite (= %s 0) %s (store %s %s (store (select %s %s) %s none_%s)))", m, h, h, m, h, m, arg(1), opt)
		st.heap[cl] = vc.define(vc.fresh(cl), vc.classSortByName(cl), nh)
	case "recover":
		// no run-time panic is possible on the verified paths (each is an obligation); explicit panics of callees are not modelled
		vc.note("recover() returns nil: panics are excluded by the safety obligations of the function itself; panics of uncontracted callees are not modelled")
		fr.set(v, "iface_nil")
	case "close":
		fr.chanEvent("close", c.Args[0], st, g, c.Pos())
	case "min", "max":
		if w, signed, ok := intInfo(v.Type()); ok && len(c.Args) == 2 {
			_ = w
			lt := "<"
			if vc.mode == modeBV {
				lt = "bvult"
				if signed {
					lt = "bvslt"
				}
			}
			a, bb := arg(0), arg(1)
			if b.Name() == "min" {
				fr.set(v, "(ite ("+lt+" "+a+" "+bb+") "+a+" "+bb+")")
			} else {
				fr.set(v, "(ite ("+lt+" "+a+" "+bb+") "+bb+" "+a+")")
			}
			return
		}
		fr.havocVal(v, b.Name())
	case "print", "println":
	default:
		vc.unsupported = append(vc.unsupported, "builtin "+b.Name())
		if v != nil {
			fr.havocVal(v, b.Name())
		}
		vc.havocAll(st, "builtin "+b.Name())
	}
}

// append(s, elems...): both outcomes (in place when it fits, fresh backing array otherwise).
func (fr *frame) appendBuiltin(v ssa.Value, c *ssa.CallCommon, st *State, g string) {
	vc := fr.vc
	s := fr.val(c.Args[0])
	sl := c.Args[0].Type().Underlying().(*types.Slice)
	et := sl.Elem()
	// the appended part: in SSA the variadic arguments arrive as one slice (or a string for []byte)
	extra := fr.val(c.Args[1])
	isStr := isString(c.Args[1].Type())
	hint := fr.prefix + v.Name()
	nm := func(suffix, term string) string {
		n := vc.freshConst(hint+"#"+suffix, "Int")
		vc.assume("(= " + n + " " + term + ")")
		return n
	}
	// named components (opaque constants: robust triggers)
	sarr, soff, slen, scap := nm("sarr", "(s_arr "+s+")"), nm("soff", "(s_off "+s+")"), nm("slen", "(s_len "+s+")"), nm("scap", "(s_cap "+s+")")
	var n, xarr, xoff string
	if isStr {
		n = nm("n", "(slen "+extra+")")
	} else {
		n = nm("n", "(s_len "+extra+")")
		xarr, xoff = nm("xarr", "(s_arr "+extra+")"), nm("xoff", "(s_off "+extra+")")
	}
	fits := fmt.Sprintf("(<= (+ %s %s) %s)", slen, n, scap)
	fresh := vc.alloc(st, hint+"#arr")
	ncap := vc.freshConst(hint+"#cap", "Int")
	vc.assume(fmt.Sprintf("(and (>= %s (+ %s %s)) (< %s 4611686018427387904))", ncap, slen, n, ncap))
	rarr, roff, rlen, rcap := vc.freshConst(hint+"#rarr", "Int"), vc.freshConst(hint+"#roff", "Int"), vc.freshConst(hint+"#rlen", "Int"), vc.freshConst(hint+"#rcap", "Int")
	vc.assume(fmt.Sprintf("(= %s (+ %s %s))", rlen, slen, n))
	vc.assume(fmt.Sprintf("(=> %s (and (= %s %s) (= %s %s) (= %s %s)))", fits, rarr, sarr, roff, soff, rcap, scap))
	vc.assume(fmt.Sprintf("(=> (not %s) (and (= %s %s) (= %s 0) (= %s %s)))", fits, rarr, fresh, roff, rcap, ncap))
	fr.set(v, fmt.Sprintf("(mk_slice %s %s %s %s)", rarr, roff, rlen, rcap))
	vc.needEAQuant()
	if isStr {
		for _, cl := range vc.classesOfType(et) {
			old := vc.heapOf(st, cl)
			vc.havocClass(st, cl)
			nw := st.heap[cl]
			vc.assume(fmt.Sprintf("(forall ((a Int)) (! (=> (and (not (and (= (akind a) 1) (= (ea_arr a) %s))) (not (and (= (akind a) 1) (= (ea_arr a) %s) (>= (ea_idx a) (+ %s %s)) (< (ea_idx a) (+ %s %s))))) (= (select %s a) (select %s a))) :pattern ((select %s a))))",
				fresh, rarr, roff, slen, roff, rlen, nw, old, nw))
		}
		vc.note("append of string bytes: byte values of the result are not characterised")
		return
	}
	// leaves: the scalar cells an element occupies (one for scalar elements, one per field path for struct elements)
	leaves := vc.leafPaths(et)
	if leaves == nil {
		vc.unsupported = append(vc.unsupported, "append of elements containing arrays")
		vc.havocAll(st, "append")
		return
	}
	byClass := map[string][]leafPath{}
	var classOrder []string
	for _, lf := range leaves {
		if _, ok := byClass[lf.class]; !ok {
			classOrder = append(classOrder, lf.class)
		}
		byClass[lf.class] = append(byClass[lf.class], lf)
	}
	for _, cl := range classOrder {
		old := vc.heapOf(st, cl)
		vc.havocClass(st, cl)
		nw := st.heap[cl]
		// a cell keeps its value unless it is a leaf of an element in the appended range of the result array or of the fresh array
		var touched []string
		for _, lf := range byClass[cl] {
			e := lf.elemOf("a")
			touched = append(touched, fmt.Sprintf("(and %s (= (akind %s) 1) (or (= (ea_arr %s) %s) (and (= (ea_arr %s) %s) (>= (ea_idx %s) (+ %s %s)) (< (ea_idx %s) (+ %s %s)))))",
				lf.isLeaf("a"), e, e, fresh, e, rarr, e, roff, slen, e, roff, rlen))
		}
		vc.assume(fmt.Sprintf("(forall ((a Int)) (! (=> (not %s) (= (select %s a) (select %s a))) :pattern ((select %s a))))", or(touched...), nw, old, nw))
		for _, lf := range byClass[cl] {
			// elements of the result by absolute index k into the result's backing array
			vc.assume(fmt.Sprintf("(forall ((k Int)) (! (=> (and (<= %s k) (< k (+ %s %s))) (= (select %s %s) (select %s %s))) :pattern ((select %s %s))))",
				roff, roff, slen, nw, lf.addrOf("(ea "+rarr+" k)"), old, lf.addrOf(fmt.Sprintf("(ea %s (+ %s (- k %s)))", sarr, soff, roff)), nw, lf.addrOf("(ea "+rarr+" k)")))
			vc.assume(fmt.Sprintf("(forall ((k Int)) (! (=> (and (<= (+ %s %s) k) (< k (+ %s %s))) (= (select %s %s) (select %s %s))) :pattern ((select %s %s))))",
				roff, slen, roff, rlen, nw, lf.addrOf("(ea "+rarr+" k)"), old, lf.addrOf(fmt.Sprintf("(ea %s (+ %s (- k %s %s)))", xarr, xoff, roff, slen)), nw, lf.addrOf("(ea "+rarr+" k)")))
		}
	}
}

type leafPath struct {
	class string
	fns   []string // field address functions from the element outwards
	invs  []string
	kinds []int
}

// addrOf: the leaf's address inside the element at address e
func (lf leafPath) addrOf(e string) string {
	a := e
	for _, f := range lf.fns {
		a = "(" + f + " " + a + ")"
	}
	return a
}

// elemOf: the element address a leaf address a belongs to (through the inverse field functions)
func (lf leafPath) elemOf(a string) string {
	e := a
	for i := len(lf.invs) - 1; i >= 0; i-- {
		e = "(" + lf.invs[i] + " " + e + ")"
	}
	return e
}

// isLeaf: a has the address kind of this leaf (scalar elements: an element address; fields: the field's kind all the way down)
func (lf leafPath) isLeaf(a string) string {
	if len(lf.fns) == 0 {
		return "true"
	}
	var cs []string
	cur := a
	for i := len(lf.fns) - 1; i >= 0; i-- {
		cs = append(cs, fmt.Sprintf("(= (akind %s) %d)", cur, lf.kinds[i]))
		cs = append(cs, fmt.Sprintf("(= (%s (%s %s)) %s)", lf.fns[i], lf.invs[i], cur, cur))
		cur = "(" + lf.invs[i] + " " + cur + ")"
	}
	return and(cs...)
}

func (vc *VC) leafPaths(t types.Type) []leafPath {
	switch u := t.Underlying().(type) {
	case *types.Struct:
		var out []leafPath
		for i := 0; i < u.NumFields(); i++ {
			name := vc.fieldAddrFn(t, u, i)
			inv := "|inv" + name[1:]
			kind := 1000 + vc.P.TypeID("field:"+name)
			vc.quantFieldAxiom(name, inv, kind)
			sub := vc.leafPaths(u.Field(i).Type())
			if sub == nil {
				return nil
			}
			for _, s := range sub {
				out = append(out, leafPath{class: s.class, fns: append([]string{name}, s.fns...), invs: append([]string{inv}, s.invs...), kinds: append([]int{kind}, s.kinds...)})
			}
		}
		return out
	case *types.Array:
		return nil
	}
	return []leafPath{{class: vc.className(t)}}
}

func (vc *VC) quantFieldAxiom(name, inv string, kind int) {
	if vc.boxFacts == nil {
		vc.boxFacts = map[string]bool{}
	}
	if !vc.boxFacts["q:"+name] {
		vc.boxFacts["q:"+name] = true
		vc.assume(fmt.Sprintf("(forall ((r Int)) (! (and (= (%s (%s r)) r) (= (base (%s r)) (base r)) (= (akind (%s r)) %d) (not (= (%s r) 0))) :pattern ((%s r))))", inv, name, name, name, kind, name, name))
	}
}

// lastOld finds the heap term that was replaced by nw in the most recent havocClass (recorded by havocClass)
func (fr *frame) lastOld(cl, nw string) string {
	return fr.vc.prevHeap[nw]
}

// ---------------------------------------------------------------- channels / ghost events

func (fr *frame) chanEvent(kind string, ch ssa.Value, st *State, g string, pos token.Pos) {
	vc := fr.vc
	cur := ghostGet(st, "chanops", "0")
	st.ghost["chanops"] = vc.define(vc.fresh("chanops"), "Int", "(+ "+cur+" 1)")
	name := chanFieldName(ch)
	root := fr.rootFr
	if root.contract != nil {
		for _, c := range root.contract.Get("at-event") {
			// at-event send more requires[label] e
			f := strings.Fields(c.Text)
			if len(f) < 3 || f[0] != kind || f[1] != name {
				continue
			}
			rest := strings.TrimSpace(c.Text[strings.Index(c.Text, f[1])+len(f[1]):])
			rest = strings.TrimSpace(strings.TrimPrefix(rest, "requires"))
			lab, txt := splitLabel(rest)
			e, err := ParseExpr(txt)
			if err != nil {
				vc.unsupported = append(vc.unsupported, "at-event clause: "+err.Error())
				continue
			}
			env := root.specEnvAt(st)
			if root.eventVal != nil {
				env.vars["sent"] = *root.eventVal
			}
			if root.atCallSeen == nil {
				root.atCallSeen = map[*Clause]bool{}
			}
			root.atCallSeen[c] = true
			vc.oblige("at-event", kind+"-"+name+":"+lab, g, env.trBool(e), "at "+kind+" on "+name+": "+txt, root.props, posOf(fr.fn, pos))
		}
	}
	if kind == "close" {
		k := "closed:" + name
		cur := ghostGet(st, k, "0")
		fr.hazard("chanclose", g, "(= "+cur+" 0)", pos, "close of an already closed channel "+name)
		st.ghost[k] = vc.define(vc.fresh("closed"), "Int", "(+ "+cur+" 1)")
	}
}

func chanFieldName(ch ssa.Value) string {
	switch x := ch.(type) {
	case *ssa.UnOp:
		if fa, ok := x.X.(*ssa.FieldAddr); ok {
			st := fa.X.Type().Underlying().(*types.Pointer).Elem().Underlying().(*types.Struct)
			return st.Field(fa.Field).Name()
		}
		if fv, ok := x.X.(*ssa.FreeVar); ok { // a channel variable captured by the closure
			return fv.Name()
		}
	case *ssa.Parameter:
		return x.Name()
	case *ssa.FreeVar:
		return x.Name()
	}
	return ch.Name()
}

// onRecvClauses: `on-recv <chan> gf(name, ref)`: after a comma-ok receive on that channel the ghost field holds 1 if the
// channel was found closed (ok == false), else 0. This is how "the producer has finished" outlives the call.
func (fr *frame) onRecvClauses(ch ssa.Value, ok string, st *State, g string) {
	root := fr.rootFr
	if root.contract == nil {
		return
	}
	name := chanFieldName(ch)
	for _, c := range root.contract.Get("on-recv") {
		f := strings.Fields(c.Text)
		if len(f) < 2 || f[0] != name {
			continue
		}
		e, err := ParseExpr(strings.TrimSpace(c.Text[len(f[0]):]))
		if err != nil {
			fr.vc.specErrors = append(fr.vc.specErrors, "on-recv: "+err.Error())
			continue
		}
		env := root.specEnvAt(st)
		addr, t, isL := env.lvalue(e)
		if !isL {
			fr.vc.specErrors = append(fr.vc.specErrors, "on-recv: not a ghost field")
			continue
		}
		cur := fr.vc.load(st, addr, t)
		fr.vc.store(st, addr, t, "(ite "+g+" (ite "+ok+" 0 1) "+cur+")")
	}
}

func (fr *frame) ghostRecvOk(ch ssa.Value, ok string, st *State, g string) {
	fr.onRecvClauses(ch, ok, st, g)
	// ghost "<field>.exhausted" := !ok
	name := chanFieldName(ch)
	k := "exhausted:" + name
	fr.vc.P.Ghosts[k] = &GhostDecl{Name: k, Sort: "Bool", Init: "false"}
	st.ghost[k] = fr.vc.define(fr.vc.fresh("exhausted"), "Bool", not(ok))
}

func (fr *frame) ghostEvent(kind string, c *ssa.CallCommon, st *State, g string) {}

func (fr *frame) selectInstr(x *ssa.Select, st *State, g string) {
	vc := fr.vc
	for _, s := range x.States {
		kind := "recv"
		if s.Dir == types.SendOnly {
			kind = "send"
		}
		if !x.Blocking {
			// a non-blocking select polls: it is not a communication that can block
			name := chanFieldName(s.Chan)
			_ = name
			if _, ok := vc.P.Ghosts["polled"]; !ok {
				vc.P.Ghosts["polled"] = &GhostDecl{Name: "polled", Sort: "Bool", Init: "false"}
			}
			// only a poll of the Done channel of a context the function was given counts as polling for cancellation
			if isDoneOfGivenContext(s.Chan) {
				st.ghost["polled"] = "true"
			} else {
				vc.note("a non-blocking select in " + vc.fn + " polls a channel that is not the Done channel of a context parameter: not counted as a cancellation poll")
			}
			continue
		}
		fr.chanEvent(kind, s.Chan, st, g, x.Pos())
	}
	fr.havocVal(x, "select")
	if tup := fr.tuples[x]; len(tup) > 0 && vc.mode == modeInt {
		vc.assumeG(g, fmt.Sprintf("(and (>= %s -1) (< %s %d))", tup[0], tup[0], len(x.States)))
	}
}

// ---------------------------------------------------------------- loops

func (fr *frame) loopClauses(li *loopInfo) []*Clause {
	if fr.contract == nil {
		return nil
	}
	var out []*Clause
	for _, c := range fr.contract.Get("loop-invariant") {
		if c.Loop == li.ordinal {
			out = append(out, c)
		}
	}
	return out
}

func (fr *frame) loopHeader(b *ssa.BasicBlock, li *loopInfo, states []*State, conds []string, bg string) *State {
	vc := fr.vc
	pre := vc.merge(states, conds, fmt.Sprintf("%sb%d", fr.prefix, b.Index))
	invs := fr.loopClauses(li)
	if len(invs) == 0 {
		vc.loopsNoInv++
	}
	// entry values of phis
	entryVals := map[ssa.Value]string{}
	var phis []*ssa.Phi
	for _, in := range b.Instrs {
		phi, ok := in.(*ssa.Phi)
		if !ok {
			break
		}
		phis = append(phis, phi)
		var vals, cs []string
		for i, p := range b.Preds {
			if li.backEdge[p] {
				continue
			}
			ec, ok := fr.edge[[2]int{p.Index, b.Index}]
			if !ok {
				continue
			}
			vals = append(vals, fr.val(phi.Edges[i]))
			cs = append(cs, ec)
		}
		e := vals[len(vals)-1]
		for i := len(vals) - 2; i >= 0; i-- {
			if vals[i] != e {
				e = "(ite " + cs[i] + " " + vals[i] + " " + e + ")"
			}
		}
		entryVals[phi] = e
	}
	// inv-entry
	for _, c := range invs {
		env := fr.specEnvAt(pre)
		env.override = entryVals
		env.loopHeader = b
		f := env.trBool(c.E)
		lab := fmt.Sprintf("loop%d", li.ordinal)
		if c.Label != "" {
			lab += ":" + c.Label
		}
		vc.oblige("inv-entry", lab, bg, f, fmt.Sprintf("loop %d invariant %s holds on entry", li.ordinal, c.Text), fr.props, posOf(fr.fn, blockPos(b)))
	}
	// the implicit frame invariant (assumed at the header below, checked on every back edge) must also hold when the loop
	// is entered: a write outside the modifies clause made *before* the loop would otherwise be forgotten at the header
	if fr.top && fr.contract != nil && !fr.contract.Has("trusted-frame") {
		if items, specified, err := parseModifies(fr.contract); err == nil && specified {
			if fs, ok := fr.frameFormulas(items, fr.entry, pre, true); ok {
				var cs []string
				for c := range fs {
					cs = append(cs, c)
				}
				sort.Strings(cs)
				for _, c := range cs {
					vc.oblige("inv-entry", fmt.Sprintf("loop%d:frame:%s", li.ordinal, strings.TrimPrefix(c, "H_")), bg, fs[c], "the frame condition holds when the loop is entered (class "+c+")", fr.props, posOf(fr.fn, blockPos(b)))
				}
			}
		}
	}
	// havoc what the loop can change
	st := pre.clone()
	all, classes := fr.loopModifies(li)
	if all {
		// everything may change, except local cells the loop body cannot write
		vc.havocAllKeep(st, func(c localCell) bool {
			a, ok := c.alloc.(*ssa.Alloc)
			return ok && !fr.allocWrittenIn(li, a)
		})
	} else {
		for _, c := range classes {
			vc.havocClass(st, c)
		}
		nhw := vc.freshConst("hw", "Int")
		vc.assume("(>= " + nhw + " " + st.hw + ")")
		st.hw = nhw
	}
	for _, c := range vc.localCells {
		if a, ok := c.alloc.(*ssa.Alloc); ok && !fr.allocWrittenIn(li, a) {
			vc.store(st, c.addr, c.typ, vc.load(pre, c.addr, c.typ))
		}
	}
	for k := range st.ghost {
		st.ghost[k] = vc.freshConst("ghost_"+k, vc.ghostSort(k))
		if vc.ghostSort(k) == "Int" {
			vc.assume("(>= " + st.ghost[k] + " " + ghostGet(pre, k, "0") + ")")
		}
	}
	// ghost counters that the body may create later must exist at the header too
	for _, k := range []string{"$kcalls", "chanops"} {
		if _, ok := st.ghost[k]; !ok {
			st.ghost[k] = vc.freshConst("ghost_"+k, "Int")
			vc.assume("(>= " + st.ghost[k] + " 0)")
		}
	}
	st.defers = pre.defers
	for _, phi := range phis {
		fr.havocVal(phi, "loop phi")
		fr.assumeTypeFacts(bg, st, phi.Type(), fr.vals[phi])
	}
	for _, c := range invs {
		env := fr.specEnvAt(st)
		env.loopHeader = b
		f := env.trBool(c.E)
		vc.assumeG(bg, f)
	}
	// `loop N assume e`: assumed (not proved) at every iteration; listed in the evidence
	if fr.contract != nil {
		for _, c := range fr.contract.Get("loop-assume") {
			if c.Loop != li.ordinal {
				continue
			}
			env := fr.specEnvAt(st)
			env.loopHeader = b
			vc.note("ASSUMED on " + fr.contract.Name + " at every iteration of loop " + fmt.Sprint(li.ordinal) + ": " + c.Text)
			vc.assumeG(bg, env.trBool(c.E))
		}
	}
	// implicit invariant: the function's frame condition holds at every iteration (checked again on the back edge)
	if fr.top && fr.contract != nil && !fr.contract.Has("trusted-frame") {
		if items, specified, err := parseModifies(fr.contract); err == nil && specified {
			if fs, ok := fr.frameFormulas(items, fr.entry, st, true); ok {
				for _, f := range fs {
					vc.assumeG(bg, f)
				}
			}
		}
	}
	return st
}

func (fr *frame) loopBackEdge(from, header *ssa.BasicBlock, li *loopInfo, st *State, cond string) {
	vc := fr.vc
	invs := fr.loopClauses(li)
	if fr.top && fr.contract != nil && !fr.contract.Has("trusted-frame") {
		if items, specified, err := parseModifies(fr.contract); err == nil && specified {
			if fs, ok := fr.frameFormulas(items, fr.entry, st, true); ok {
				var cs []string
				for c := range fs {
					cs = append(cs, c)
				}
				sort.Strings(cs)
				for _, c := range cs {
					vc.oblige("inv-keep", fmt.Sprintf("loop%d:frame:%s", li.ordinal, strings.TrimPrefix(c, "H_")), cond, fs[c], "the frame condition is preserved by the loop body (class "+c+")", fr.props, posOf(fr.fn, blockPos(from)))
				}
			}
		}
	}
	// `loop n maintains e`: every iteration that goes round again ends in a state where e holds (checked on the back
	// edge, over the values the body computed; unlike an invariant it is not assumed at the header, so it may speak about
	// variables that only live inside the body)
	if fr.contract != nil {
		for _, c := range fr.contract.Get("loop-maintains") {
			if c.Loop != li.ordinal {
				continue
			}
			env := fr.specEnvAt(st)
			env.loopHeader = header
			lab := fmt.Sprintf("loop%d", li.ordinal)
			if c.Label != "" {
				lab += ":" + c.Label
			}
			vc.oblige("maintains", lab, cond, env.trBool(c.E), fmt.Sprintf("loop %d maintains %s", li.ordinal, c.Text), fr.props, posOf(fr.fn, blockPos(from)))
		}
	}
	if len(invs) == 0 {
		return
	}
	idx := -1
	for i, p := range header.Preds {
		if p == from {
			idx = i
		}
	}
	over := map[ssa.Value]string{}
	for _, in := range header.Instrs {
		phi, ok := in.(*ssa.Phi)
		if !ok {
			break
		}
		over[phi] = fr.val(phi.Edges[idx])
	}
	for _, c := range invs {
		env := fr.specEnvAt(st)
		env.override = over
		env.loopHeader = header
		f := env.trBool(c.E)
		lab := fmt.Sprintf("loop%d", li.ordinal)
		if c.Label != "" {
			lab += ":" + c.Label
		}
		vc.oblige("inv-keep", lab, cond, f, fmt.Sprintf("loop %d invariant %s is preserved", li.ordinal, c.Text), fr.props, posOf(fr.fn, blockPos(from)))
	}
}

// allocWrittenIn: may the loop body write the local cell? (a store through it or a derived address, a callee or a
// closure that received the address)
func (fr *frame) allocWrittenIn(li *loopInfo, a *ssa.Alloc) bool {
	var derived func(v ssa.Value, depth int) bool
	derived = func(v ssa.Value, depth int) bool {
		if v.Referrers() == nil || depth > 6 {
			return true
		}
		for _, ref := range *v.Referrers() {
			switch x := ref.(type) {
			case *ssa.Store:
				if x.Addr == v && li.body[x.Block()] {
					return true
				}
			case *ssa.FieldAddr:
				if derived(x, depth+1) {
					return true
				}
			case *ssa.IndexAddr:
				if derived(x, depth+1) {
					return true
				}
			case *ssa.Call:
				if li.body[x.Block()] {
					return true
				}
			case *ssa.Defer:
				return true
			case *ssa.MakeClosure:
				if x.Referrers() != nil {
					for _, cr := range *x.Referrers() {
						if in, ok := cr.(ssa.Instruction); ok && li.body[in.Block()] {
							return true
						}
					}
				}
			}
		}
		return false
	}
	return derived(a, 0)
}

// loopModifies: heap classes the loop body may write (all = everything)
func (fr *frame) loopModifies(li *loopInfo) (bool, []string) {
	vc := fr.vc
	set := map[string]bool{}
	all := false
	var blocks []*ssa.BasicBlock
	for b := range li.body {
		blocks = append(blocks, b)
	}
	sort.Slice(blocks, func(i, j int) bool { return blocks[i].Index < blocks[j].Index })
	var visitFn func(fn *ssa.Function, depth int)
	visitInstr := func(in ssa.Instruction, depth int) {
		switch x := in.(type) {
		case *ssa.Store:
			for _, c := range vc.classesOfType(x.Val.Type()) {
				set[c] = true
			}
		case *ssa.Alloc:
			for _, c := range vc.classesOfType(x.Type().Underlying().(*types.Pointer).Elem()) {
				set[c] = true
			}
		case *ssa.MapUpdate:
			set[vc.mapClass(x.Map.Type())] = true
		case *ssa.MakeMap:
			set[vc.mapClass(x.Type())] = true
		case ssa.CallInstruction:
			c := x.Common()
			if b, ok := c.Value.(*ssa.Builtin); ok {
				switch b.Name() {
				case "append", "copy":
					for _, cl := range vc.classesOfType(c.Args[0].Type().Underlying().(*types.Slice).Elem()) {
						set[cl] = true
					}
				case "delete":
					set[vc.mapClass(c.Args[0].Type())] = true
				case "len", "cap", "recover", "min", "max", "print", "println", "close":
				default:
					all = true
				}
				return
			}
			callee := c.StaticCallee()
			if callee == nil {
				if c.IsInvoke() {
					if d, ok := vc.P.Funcs[ifaceMethodKey(c.Value.Type(), c.Method.Name())]; ok && d.Has("pure") {
						return
					}
				}
				all = true
				return
			}
			if d := vc.P.contractFor(callee); d != nil && !d.Has("inline") {
				items, specified, _ := parseModifies(d)
				if !specified {
					if d.Kind == "func" || refSig(callee.Signature) {
						all = true
					}
					return
				}
				for _, it := range items {
					switch it.kind {
					case "heap":
						all = true
					case "class":
						env := vc.newSpecEnv(callee, nil, nil)
						if t := env.resolveType(it.typ); t != nil {
							for _, cl := range vc.classesOfType(t) {
								set[cl] = true
							}
						} else {
							all = true
						}
					default:
						// type of the location: resolve statically from the callee's parameters
						t := staticLocType(vc, callee, it)
						if t == nil {
							all = true
						} else {
							for _, cl := range vc.classesOfType(t) {
								set[cl] = true
							}
						}
					}
				}
				return
			}
			if pureExtern[callee.String()] {
				return
			}
			if fr.canInline(callee) && depth < 3 {
				visitFn(callee, depth+1)
				return
			}
			all = true
		}
	}
	visitFn = func(fn *ssa.Function, depth int) {
		for _, b := range fn.Blocks {
			for _, in := range b.Instrs {
				visitInstr(in, depth)
			}
		}
	}
	for _, b := range blocks {
		for _, in := range b.Instrs {
			visitInstr(in, 0)
		}
	}
	var out []string
	for c := range set {
		out = append(out, c)
	}
	sort.Strings(out)
	return all, out
}

func refSig(sig *types.Signature) bool {
	var ts []types.Type
	if sig.Recv() != nil {
		ts = append(ts, sig.Recv().Type())
	}
	for i := 0; i < sig.Params().Len(); i++ {
		ts = append(ts, sig.Params().At(i).Type())
	}
	return refArgs(ts)
}

func staticLocType(vc *VC, callee *ssa.Function, it modItem) types.Type {
	env := vc.newSpecEnv(callee, nil, nil)
	env.typeOnly = true
	names := fnParamNames(callee)
	var ptypes []types.Type
	if len(callee.Params) > 0 {
		for _, p := range callee.Params {
			ptypes = append(ptypes, p.Type())
		}
	} else {
		if r := callee.Signature.Recv(); r != nil {
			ptypes = append(ptypes, r.Type())
		}
		for i := 0; i < callee.Signature.Params().Len(); i++ {
			ptypes = append(ptypes, callee.Signature.Params().At(i).Type())
		}
	}
	for i, n := range names {
		if i < len(ptypes) {
			env.vars[n] = sval{t: "0", typ: ptypes[i]}
		}
	}
	defer func() { recover() }()
	if it.kind == "elems" {
		sv := env.tr(it.e)
		if sl, ok := sv.typ.Underlying().(*types.Slice); ok {
			return sl.Elem()
		}
		return nil
	}
	_, t, ok := env.lvalue(it.e)
	if !ok {
		return nil
	}
	return t
}

func hasAnyProp(a, b []string) bool {
	for _, x := range a {
		for _, y := range b {
			if x == y {
				return true
			}
		}
	}
	return false
}

// isContValue: the called function value is the continuation of the function under contract: its continuation
// parameter itself, or a load from the cell that holds it (a parameter captured by a closure lives in a cell; a
// closure sees the enclosing function's continuation through its free variable), provided the cell is never
// reassigned
func (fr *frame) isContValue(v ssa.Value) bool {
	if fr.kparam != nil && v == ssa.Value(fr.kparam) {
		return true
	}
	u, ok := v.(*ssa.UnOp)
	if !ok || u.Op != token.MUL {
		return false
	}
	if fr.kcell != nil && u.X == fr.kcell {
		return cellNeverReassigned(fr.fn, fr.kcell.Name())
	}
	if a, ok := u.X.(*ssa.Alloc); ok && fr.kparam != nil && a.Referrers() != nil {
		stores := 0
		fromParam := false
		for _, r := range *a.Referrers() {
			if st, ok := r.(*ssa.Store); ok && st.Addr == ssa.Value(a) {
				stores++
				if st.Val == ssa.Value(fr.kparam) {
					fromParam = true
				}
			}
		}
		return stores == 1 && fromParam && cellNeverReassigned(fr.fn, fr.kparam.Name())
	}
	return false
}

// cellNeverReassigned: no closure nested in fn (at any depth) stores into its free variable of that name
func cellNeverReassigned(fn *ssa.Function, name string) bool {
	for _, an := range fn.AnonFuncs {
		for _, b := range an.Blocks {
			for _, in := range b.Instrs {
				if st, ok := in.(*ssa.Store); ok {
					if fv, ok := st.Addr.(*ssa.FreeVar); ok && fv.Name() == name {
						return false
					}
				}
			}
		}
		if !cellNeverReassigned(an, name) {
			return false
		}
	}
	return true
}

func isDoneOfGivenContext(ch ssa.Value) bool {
	c, ok := ch.(*ssa.Call)
	if !ok || !c.Call.IsInvoke() || c.Call.Method.Name() != "Done" {
		return false
	}
	if types.TypeString(c.Call.Value.Type(), nil) != "context.Context" {
		return false
	}
	switch v := c.Call.Value.(type) {
	case *ssa.Parameter:
		return true
	case *ssa.UnOp: // a captured context
		_, isFree := v.X.(*ssa.FreeVar)
		return v.Op == token.MUL && isFree
	}
	return false
}

// mentionsBindName: the first name bound by one of d's `bind` clauses that occurs as an identifier in text ("" if none)
func mentionsBindName(d *Decl, text string) string {
	for _, b := range d.Get("bind") {
		lhs := b.Text
		if i := strings.Index(lhs, "="); i >= 0 {
			lhs = lhs[:i]
		}
		for _, n := range strings.Split(lhs, ",") {
			n = strings.TrimSpace(n)
			if n == "" || n == "_" {
				continue
			}
			if regexp.MustCompile(`(^|[^A-Za-z0-9_.$])` + regexp.QuoteMeta(n) + `($|[^A-Za-z0-9_(])`).MatchString(text) {
				return n
			}
		}
	}
	return ""
}
