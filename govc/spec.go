package main

// Contract files: parsing of //@ lines into declarations, and of spec expressions into an AST.
// See /verif/DESIGN.md section 3.2.

import (
	"fmt"
	"os"
	"strconv"
	"strings"
	"unicode"
)

// ---------------------------------------------------------------- expression AST

type Expr interface{ String() string }

type (
	EIdent struct{ Name string }
	ENum   struct{ Text string } // integer or float literal text
	EStr   struct{ Val string }
	EUnary struct {
		Op string
		X  Expr
	}
	EBinary struct {
		Op   string
		X, Y Expr
	}
	ECall struct {
		Fun  Expr
		Args []Expr
	}
	ESelect struct {
		X    Expr
		Name string
	}
	EIndex struct{ X, I Expr }
	ESlice struct{ X, Lo, Hi Expr }
	EQuant struct {
		Forall bool
		Vars   []QVar
		Body   Expr
	}
	EIs struct {
		X   Expr
		Typ string
	}
	EAs struct {
		X   Expr
		Typ string
	}
)

type QVar struct{ Name, Typ string }

func (e *EIdent) String() string  { return e.Name }
func (e *ENum) String() string    { return e.Text }
func (e *EStr) String() string    { return strconv.Quote(e.Val) }
func (e *EUnary) String() string  { return e.Op + e.X.String() }
func (e *EBinary) String() string { return "(" + e.X.String() + " " + e.Op + " " + e.Y.String() + ")" }
func (e *ECall) String() string {
	var a []string
	for _, x := range e.Args {
		a = append(a, x.String())
	}
	return e.Fun.String() + "(" + strings.Join(a, ", ") + ")"
}
func (e *ESelect) String() string { return e.X.String() + "." + e.Name }
func (e *EIndex) String() string  { return e.X.String() + "[" + e.I.String() + "]" }
func (e *ESlice) String() string {
	lo, hi := "", ""
	if e.Lo != nil {
		lo = e.Lo.String()
	}
	if e.Hi != nil {
		hi = e.Hi.String()
	}
	return e.X.String() + "[" + lo + ":" + hi + "]"
}
func (e *EQuant) String() string {
	q := "exists"
	if e.Forall {
		q = "forall"
	}
	var v []string
	for _, x := range e.Vars {
		v = append(v, x.Name+" "+x.Typ)
	}
	return "(" + q + " " + strings.Join(v, ", ") + " :: " + e.Body.String() + ")"
}
func (e *EIs) String() string { return "(" + e.X.String() + " is " + e.Typ + ")" }
func (e *EAs) String() string { return "(" + e.X.String() + " as " + e.Typ + ")" }

// ---------------------------------------------------------------- lexer

type tok struct {
	kind string // id num str op eof
	text string
}

func lexExpr(src string) ([]tok, error) {
	var out []tok
	i := 0
	for i < len(src) {
		c := src[i]
		switch {
		case c == ' ' || c == '\t' || c == '\n':
			i++
		case unicode.IsLetter(rune(c)) || c == '_' || c == '$':
			j := i
			for j < len(src) && (unicode.IsLetter(rune(src[j])) || unicode.IsDigit(rune(src[j])) || src[j] == '_' || src[j] == '$') {
				j++
			}
			out = append(out, tok{"id", src[i:j]})
			i = j
		case unicode.IsDigit(rune(c)):
			j := i
			hex := strings.HasPrefix(src[i:], "0x") || strings.HasPrefix(src[i:], "0X")
			for j < len(src) {
				d := src[j]
				if unicode.IsDigit(rune(d)) || d == '.' || d == '_' || d == 'x' || d == 'X' ||
					(hex && ((d >= 'a' && d <= 'f') || (d >= 'A' && d <= 'F'))) ||
					(hex && (d == 'p' || d == 'P')) || (!hex && (d == 'e' || d == 'E')) {
					j++
					continue
				}
				if (d == '+' || d == '-') && j > i && (src[j-1] == 'p' || src[j-1] == 'P' || (!hex && (src[j-1] == 'e' || src[j-1] == 'E'))) {
					j++
					continue
				}
				break
			}
			out = append(out, tok{"num", src[i:j]})
			i = j
		case c == '"':
			j := i + 1
			for j < len(src) && src[j] != '"' {
				if src[j] == '\\' {
					j++
				}
				j++
			}
			if j >= len(src) {
				return nil, fmt.Errorf("unterminated string in %q", src)
			}
			s, err := strconv.Unquote(src[i : j+1])
			if err != nil {
				return nil, fmt.Errorf("bad string %s: %v", src[i:j+1], err)
			}
			out = append(out, tok{"str", s})
			i = j + 1
		default:
			ops := []string{"<==>", "==>", "::", "&&", "||", "==", "!=", "<=", ">=", "<<", ">>", "&^", "[]",
				"+", "-", "*", "/", "%", "&", "|", "^", "<", ">", "!", "(", ")", "[", "]", ",", ".", ":", "{", "}"}
			m := ""
			for _, o := range ops {
				if strings.HasPrefix(src[i:], o) {
					m = o
					break
				}
			}
			if m == "" {
				return nil, fmt.Errorf("unexpected character %q in %q", c, src)
			}
			out = append(out, tok{"op", m})
			i += len(m)
		}
	}
	out = append(out, tok{"eof", ""})
	return out, nil
}

// ---------------------------------------------------------------- parser

type eparser struct {
	toks []tok
	p    int
	src  string
}

func ParseExpr(src string) (e Expr, err error) {
	toks, err := lexExpr(src)
	if err != nil {
		return nil, err
	}
	ps := &eparser{toks: toks, src: src}
	defer func() {
		if r := recover(); r != nil {
			if pe, ok := r.(parseErr); ok {
				err = fmt.Errorf("%s (in %q)", string(pe), src)
				return
			}
			panic(r)
		}
	}()
	e = ps.iff()
	if ps.peek().kind != "eof" {
		ps.fail("trailing %q", ps.peek().text)
	}
	return e, nil
}

type parseErr string

func (p *eparser) fail(f string, a ...interface{}) { panic(parseErr(fmt.Sprintf(f, a...))) }
func (p *eparser) peek() tok                        { return p.toks[p.p] }
func (p *eparser) next() tok                        { t := p.toks[p.p]; p.p++; return t }
func (p *eparser) isOp(s string) bool               { t := p.peek(); return t.kind == "op" && t.text == s }
func (p *eparser) isID(s string) bool               { t := p.peek(); return t.kind == "id" && t.text == s }
func (p *eparser) expect(s string) {
	if !p.isOp(s) {
		p.fail("expected %q, found %q", s, p.peek().text)
	}
	p.next()
}

func (p *eparser) iff() Expr {
	x := p.implies()
	for p.isOp("<==>") {
		p.next()
		y := p.implies()
		x = &EBinary{"<==>", x, y}
	}
	return x
}
func (p *eparser) implies() Expr {
	x := p.or()
	if p.isOp("==>") {
		p.next()
		y := p.implies()
		return &EBinary{"==>", x, y}
	}
	return x
}
func (p *eparser) or() Expr {
	x := p.and()
	for p.isOp("||") {
		p.next()
		x = &EBinary{"||", x, p.and()}
	}
	return x
}
func (p *eparser) and() Expr {
	x := p.cmp()
	for p.isOp("&&") {
		p.next()
		x = &EBinary{"&&", x, p.cmp()}
	}
	return x
}
func (p *eparser) cmp() Expr {
	x := p.addx()
	for {
		t := p.peek()
		if t.kind == "op" && (t.text == "==" || t.text == "!=" || t.text == "<" || t.text == "<=" || t.text == ">" || t.text == ">=") {
			p.next()
			x = &EBinary{t.text, x, p.addx()}
			continue
		}
		if p.isID("is") {
			p.next()
			x = &EIs{x, p.typ()}
			continue
		}
		if p.isID("in") { // x in {a, b, c}
			p.next()
			p.expect("{")
			var alts Expr
			for {
				y := p.addx()
				eq := Expr(&EBinary{"==", x, y})
				if alts == nil {
					alts = eq
				} else {
					alts = &EBinary{"||", alts, eq}
				}
				if p.isOp(",") {
					p.next()
					continue
				}
				break
			}
			p.expect("}")
			x = alts
			continue
		}
		return x
	}
}
func (p *eparser) addx() Expr {
	x := p.mulx()
	for {
		t := p.peek()
		if t.kind == "op" && (t.text == "+" || t.text == "-" || t.text == "|" || t.text == "^") {
			p.next()
			x = &EBinary{t.text, x, p.mulx()}
			continue
		}
		return x
	}
}
func (p *eparser) mulx() Expr {
	x := p.unary()
	for {
		t := p.peek()
		if t.kind == "op" && (t.text == "*" || t.text == "/" || t.text == "%" || t.text == "&" || t.text == "<<" || t.text == ">>" || t.text == "&^") {
			p.next()
			x = &EBinary{t.text, x, p.unary()}
			continue
		}
		if t.kind == "id" && (t.text == "div" || t.text == "mod") {
			p.next()
			x = &EBinary{t.text, x, p.unary()}
			continue
		}
		return x
	}
}
func (p *eparser) unary() Expr {
	t := p.peek()
	if t.kind == "op" && (t.text == "!" || t.text == "-" || t.text == "*" || t.text == "^" || t.text == "&") {
		p.next()
		return &EUnary{t.text, p.unary()}
	}
	return p.postfix()
}
func (p *eparser) postfix() Expr {
	x := p.primary()
	for {
		switch {
		case p.isOp("."):
			p.next()
			t := p.next()
			if t.kind == "op" && t.text == "(" { // x.(T): treat as `as`
				ty := p.typ()
				p.expect(")")
				x = &EAs{x, ty}
				continue
			}
			if t.kind != "id" {
				p.fail("expected field name after '.'")
			}
			x = &ESelect{x, t.text}
		case p.isOp("("):
			p.next()
			var args []Expr
			for !p.isOp(")") {
				if id, ok := x.(*EIdent); ok && id.Name == "local" && len(args) == 1 {
					args = append(args, &EIdent{p.typ()})
					break
				}
				args = append(args, p.iff())
				if p.isOp(",") {
					p.next()
				} else {
					break
				}
			}
			p.expect(")")
			x = &ECall{x, args}
		case p.isOp("["):
			p.next()
			var lo, hi Expr
			if !p.isOp(":") {
				lo = p.iff()
			}
			if p.isOp(":") {
				p.next()
				if !p.isOp("]") {
					hi = p.iff()
				}
				p.expect("]")
				x = &ESlice{x, lo, hi}
			} else {
				p.expect("]")
				x = &EIndex{x, lo}
			}
		case p.isID("as"):
			p.next()
			x = &EAs{x, p.typ()}
		default:
			return x
		}
	}
}
func (p *eparser) typ() string {
	s := ""
	for p.isOp("*") || p.isOp("[]") {
		s += p.next().text
	}
	t := p.next()
	if t.kind != "id" {
		p.fail("expected type name, found %q", t.text)
	}
	if t.text == "map" && p.isOp("[") { // map[K]V
		p.next()
		k := p.typ()
		p.expect("]")
		return s + "map[" + k + "]" + p.typ()
	}
	s += t.text
	for p.isOp(".") && p.toks[p.p+1].kind == "id" {
		p.next()
		s += "." + p.next().text
	}
	return s
}
func (p *eparser) primary() Expr {
	t := p.next()
	switch t.kind {
	case "num":
		return &ENum{strings.ReplaceAll(t.text, "_", "")}
	case "str":
		return &EStr{t.text}
	case "id":
		if t.text == "forall" || t.text == "exists" {
			var vars []QVar
			for {
				n := p.next()
				if n.kind != "id" {
					p.fail("expected bound variable name")
				}
				ty := p.typ()
				vars = append(vars, QVar{n.text, ty})
				if p.isOp(",") {
					p.next()
					continue
				}
				break
			}
			p.expect("::")
			body := p.iff()
			return &EQuant{t.text == "forall", vars, body}
		}
		return &EIdent{t.text}
	case "op":
		if t.text == "(" {
			e := p.iff()
			p.expect(")")
			return e
		}
	}
	p.fail("unexpected %q", t.text)
	return nil
}

// ---------------------------------------------------------------- declarations

type Clause struct {
	Kind  string // requires ensures onk nok invariant region ...
	Label string
	Text  string // raw text after keyword/label
	E     Expr   // parsed (for expression clauses)
	Loop  int    // for loop clauses
	Line  int
	File  string
}

type Param struct{ Name, Typ string }

type Decl struct {
	Kind    string // func extern specfun axiom lemma type global table ghost
	Name    string
	Clauses []*Clause
	Params  []Param // specfun, lemma
	RetTyp  string  // specfun
	Rec     bool
	Abstract bool
	Body    Expr
	BodyTxt string
	Attr    string // type: "invariant"/"immutable"; global: discipline
	Label   string
	File    string
	Line    int
}

func (d *Decl) Props() []string {
	var out []string
	for _, c := range d.Clauses {
		if c.Kind == "property" {
			out = append(out, strings.Fields(c.Text)...)
		}
	}
	return out
}
func (d *Decl) Has(kind string) bool {
	for _, c := range d.Clauses {
		if c.Kind == kind {
			return true
		}
	}
	return false
}
func (d *Decl) Get(kind string) []*Clause {
	var out []*Clause
	for _, c := range d.Clauses {
		if c.Kind == kind {
			out = append(out, c)
		}
	}
	return out
}
func (d *Decl) First(kind string) string {
	for _, c := range d.Clauses {
		if c.Kind == kind {
			return strings.TrimSpace(c.Text)
		}
	}
	return ""
}

var declKeywords = map[string]bool{"func": true, "extern": true, "spec": true, "axiom": true, "lemma": true, "type": true, "global": true, "table": true, "ghost": true, "functype": true}
var clauseKeywords = map[string]bool{"property": true, "enc": true, "requires": true, "ensures": true, "modifies": true, "onk": true, "nok": true,
	"calls": true, "at-call": true, "bind": true, "let": true, "loop": true, "wraps": true, "lossy": true, "nowrap": true, "bounded": true,
	"trusted": true, "every-iteration": true, "terminates": true, "never-asserts": true, "never-calls": true, "fresh-per-iteration": true, "assumed-post": true, "checks": true, "uses": true, "inline": true, "at-event": true, "havoc": true, "claim": true, "param": true, "pure": true, "reads": true, "noinline": true, "kont": true,
	"assume-call": true, "ghost-set": true, "decreases": true, "nosafety": true, "safety": true, "note": true, "unfold": true, "fresh": true, "hint": true, "frozen": true, "deterministic": true, "recovers": true, "unify-result-checked": true, "resolves-before-inspecting": true, "trusted-frame": true, "at-store": true, "captures-copy": true, "defines": true, "on-recv": true, "allocates": true}

var exprClauses = map[string]bool{"requires": true, "ensures": true, "onk": true, "nok": true, "claim": true, "defines": true}

// splitLabel parses "kw[label] rest" -> label, rest
func splitLabel(s string) (string, string) {
	s = strings.TrimSpace(s)
	if strings.HasPrefix(s, "[") {
		if i := strings.Index(s, "]"); i > 0 {
			return s[1:i], strings.TrimSpace(s[i+1:])
		}
	}
	return "", s
}

func ParseContractFile(path string) ([]*Decl, error) {
	data, err := os.ReadFile(path)
	if err != nil {
		return nil, err
	}
	var decls []*Decl
	var cur *Decl
	var curClause *Clause
	var specBody *strings.Builder // continuation target for spec fun bodies / axioms
	flush := func() {}
	lines := strings.Split(string(data), "\n")
	for ln, raw := range lines {
		t := strings.TrimSpace(raw)
		if !strings.HasPrefix(t, "//@") {
			continue
		}
		t = strings.TrimSpace(t[3:])
		if t == "" || strings.HasPrefix(t, "--") || strings.HasPrefix(t, "#") {
			continue
		}
		// strip trailing comment "// ..." only when preceded by two spaces (keeps "//" operator text out of specs)
		if i := strings.Index(t, "  // "); i >= 0 {
			t = strings.TrimSpace(t[:i])
		}
		first := t
		if i := strings.IndexAny(t, " \t["); i >= 0 {
			first = t[:i]
		}
		rest := strings.TrimSpace(t[len(first):])
		switch {
		case declKeywords[first]:
			flush()
			curClause = nil
			specBody = nil
			d := &Decl{File: path, Line: ln + 1}
			switch first {
			case "func", "extern", "functype":
				d.Kind = first
				d.Name = strings.TrimSpace(rest)
			case "spec":
				d.Kind = "specfun"
				f := strings.Fields(rest)
				if len(f) < 2 || (f[0] != "fun" && f[0] != "rec" && f[0] != "abstract") {
					return nil, fmt.Errorf("%s:%d: expected 'spec fun', 'spec rec' or 'spec abstract'", path, ln+1)
				}
				d.Rec = f[0] == "rec"
				d.Abstract = f[0] == "abstract"
				sig := strings.TrimSpace(rest[len(f[0]):])
				eq := strings.Index(sig, "=")
				// find the '=' that follows the closing paren and return type
				par := strings.Index(sig, ")")
				if par < 0 {
					return nil, fmt.Errorf("%s:%d: bad spec fun signature", path, ln+1)
				}
				eq = strings.Index(sig[par:], "=")
				if eq < 0 {
					if !d.Abstract {
						return nil, fmt.Errorf("%s:%d: spec fun needs '='", path, ln+1)
					}
					sig += " ="
					eq = len(sig) - 1 - par
				}
				eq += par
				head, body := sig[:eq], sig[eq+1:]
				op := strings.Index(head, "(")
				d.Name = strings.TrimSpace(head[:op])
				plist := head[op+1 : par]
				d.RetTyp = strings.TrimSpace(head[par+1:])
				for _, ps := range strings.Split(plist, ",") {
					ps = strings.TrimSpace(ps)
					if ps == "" {
						continue
					}
					ff := strings.Fields(ps)
					if len(ff) != 2 {
						return nil, fmt.Errorf("%s:%d: bad spec param %q", path, ln+1, ps)
					}
					d.Params = append(d.Params, Param{ff[0], ff[1]})
				}
				specBody = &strings.Builder{}
				specBody.WriteString(body)
				dd := d
				sb := specBody
				flush = func() { dd.BodyTxt = strings.TrimSpace(sb.String()); flush = func() {} }
			case "axiom", "lemma":
				d.Kind = first
				lab, body := splitLabel(rest)
				d.Label, d.Name = lab, lab
				specBody = &strings.Builder{}
				specBody.WriteString(body)
				dd := d
				sb := specBody
				flush = func() { dd.BodyTxt = sb.String(); flush = func() {} }
			case "type":
				d.Kind = "type"
				f := strings.Fields(rest)
				if len(f) < 2 {
					return nil, fmt.Errorf("%s:%d: bad type decl", path, ln+1)
				}
				d.Name = f[0]
				after := strings.TrimSpace(rest[len(f[0]):])
				if strings.HasPrefix(after, "invariant") {
					d.Attr = "invariant"
					lab, body := splitLabel(after[len("invariant"):])
					d.Label = lab
					specBody = &strings.Builder{}
					specBody.WriteString(body)
					dd := d
					sb := specBody
					flush = func() { dd.BodyTxt = sb.String(); flush = func() {} }
				} else {
					d.Attr = after
				}
			case "global", "table", "ghost":
				d.Kind = first
				f := strings.Fields(rest)
				if len(f) < 1 {
					return nil, fmt.Errorf("%s:%d: bad %s decl", path, ln+1, first)
				}
				d.Name = f[0]
				d.Attr = strings.TrimSpace(rest[len(f[0]):])
			}
			decls = append(decls, d)
			cur = d
		case clauseKeywords[first] && cur != nil && (cur.Kind == "func" || cur.Kind == "extern" || cur.Kind == "lemma" || cur.Kind == "functype" || cur.Kind == "axiom"):
			flush()
			specBody = nil
			c := &Clause{Kind: first, Line: ln + 1, File: path}
			if first == "loop" {
				f := strings.Fields(rest)
				if len(f) < 2 {
					return nil, fmt.Errorf("%s:%d: bad loop clause", path, ln+1)
				}
				n, err := strconv.Atoi(f[0])
				if err != nil {
					return nil, fmt.Errorf("%s:%d: loop ordinal: %v", path, ln+1, err)
				}
				c.Loop = n
				after := strings.TrimSpace(rest[len(f[0]):])
				kw := f[1]
				if i := strings.Index(kw, "["); i >= 0 {
					kw = kw[:i]
				}
				if kw != "invariant" && kw != "decreases" && kw != "assume" && kw != "maintains" {
					return nil, fmt.Errorf("%s:%d: loop clause must be invariant/decreases/assume/maintains", path, ln+1)
				}
				c.Kind = "loop-" + kw
				c.Label, c.Text = splitLabel(after[len(kw):])
			} else {
				c.Label, c.Text = splitLabel(rest)
			}
			cur.Clauses = append(cur.Clauses, c)
			curClause = c
		default:
			// continuation
			if specBody != nil {
				specBody.WriteString(" " + t)
			} else if curClause != nil {
				curClause.Text += " " + t
			} else {
				return nil, fmt.Errorf("%s:%d: stray contract line %q", path, ln+1, t)
			}
		}
	}
	flush()
	// parse expressions
	for _, d := range decls {
		if d.BodyTxt != "" {
			e, err := ParseExpr(d.BodyTxt)
			if err != nil {
				return nil, fmt.Errorf("%s:%d: %v", d.File, d.Line, err)
			}
			d.Body = e
		}
		for _, c := range d.Clauses {
			if exprClauses[c.Kind] || c.Kind == "loop-invariant" || c.Kind == "loop-decreases" || c.Kind == "loop-assume" || c.Kind == "loop-maintains" {
				e, err := ParseExpr(c.Text)
				if err != nil {
					return nil, fmt.Errorf("%s:%d: %v", c.File, c.Line, err)
				}
				c.E = e
			}
		}
	}
	return decls, nil
}
