package main

import (
	"hash/fnv"
	"go/types"
	"regexp"
	"bytes"
	"context"
	"fmt"
	"os"
	"os/exec"
	"path/filepath"
	"strings"
	"sync"
	"time"
)

type Result struct {
	Obl      *Obligation
	FV       *FuncVC
	Status   string // proved, failed, unknown, cover-ok, vacuous, error
	Solver   string
	Secs     float64
	Model    map[string]string
	Output   string
	File     string
	Region   string // for split obligations: "outside"/"inside" known region
	Sub      string
	Parts    int
}

type solverSpec struct {
	name string
	args func(file string, secs int, seed int) []string
}

var solvers = []solverSpec{
	{"z3-new", func(f string, s, seed int) []string {
		return []string{"z3-new", "-smt2", fmt.Sprintf("-T:%d", s), fmt.Sprintf("smt.random_seed=%d", seed), fmt.Sprintf("sat.random_seed=%d", seed), f}
	}},
	{"z3", func(f string, s, seed int) []string {
		return []string{"z3", "-smt2", fmt.Sprintf("-T:%d", s), fmt.Sprintf("smt.random_seed=%d", seed), f}
	}},
	{"cvc5", func(f string, s, seed int) []string {
		return []string{"cvc5", "--lang=smt2", "--produce-models", fmt.Sprintf("--tlimit=%d", s*1000), fmt.Sprintf("--seed=%d", seed), f}
	}},
}

// real floating-point reasoning (not just the finiteness invariant of Float-typed inputs)
var fpArith = regexp.MustCompile(`fp\.(add|sub|mul|div|roundToIntegral|to_sbv|to_ubv|sqrt|lt|gt|leq|geq|eq|neg|abs)|to_fp`)

// smtText renders the query for an obligation: everything emitted before it, plus guard && !formula (extra = additional assertion).
func smtText(fv *FuncVC, o *Obligation, extra string, forCVC5 bool) string {
	return smtTextF(fv, o, o.Formula, extra, forCVC5)
}

func smtTextF(fv *FuncVC, o *Obligation, formula, extra string, forCVC5 bool) string {
	var b strings.Builder
	if forCVC5 {
		b.WriteString("(set-logic ALL)\n")
	}
	b.WriteString("(set-option :produce-models true)\n")
	if o.Class == "cover-pre" {
		// satisfiability of everything assumed at entry; quantified prelude axioms (identical in every VC) are left out
		// so that the solver can answer sat
		for _, l := range fv.VC.lines[:o.NDecls] {
			if l.assume && (strings.Contains(l.s, "(forall ") || strings.Contains(l.s, "(exists ")) {
				continue
			}
			b.WriteString(l.s)
			b.WriteByte('\n')
		}
	} else {
		for _, l := range fv.VC.sliceLines(o.NDecls, o.Guard+" "+formula+" "+extra) {
			if o.Expect == "sat" && strings.HasPrefix(l, "(assert") && (strings.Contains(l, "(forall ") || strings.Contains(l, "(exists ")) {
				// reachability covers: quantified assumptions are left out so that the solver can answer sat (a cover
				// that is sat without them says the point is reachable under the ground assumptions)
				continue
			}
			b.WriteString(l)
			b.WriteByte('\n')
		}
	}
	if extra != "" {
		b.WriteString("(assert " + extra + ")\n")
	}
	b.WriteString("(assert (and " + o.Guard + " (not " + formula + ")))\n")
	b.WriteString("(check-sat)\n")
	var vals []string
	for _, in := range fv.Inputs {
		vals = append(vals, modelTerms(fv.VC, in)...)
	}
	if len(vals) > 0 {
		b.WriteString("(get-value (" + strings.Join(vals, " ") + "))\n")
	}
	return b.String()
}

func modelTerms(vc *VC, in inputVar) []string {
	if isIface(in.Typ) {
		out := []string{"(tag " + in.Term + ")"}
		impls, _ := vc.P.Implementers(in.Typ)
		for _, t := range impls {
			k := "|unbox_" + sanitize(types.TypeString(t, nil)) + "|"
			if vc.declared[k] {
				out = append(out, "("+k+" "+in.Term+")")
			}
		}
		return out
	}
	return []string{in.Term}
}

var workDir string

func runSolver(sp solverSpec, file string, secs, seed int) (status, out string, dur float64) {
	return runSolverCtx(context.Background(), sp, file, secs, seed)
}

func runSolverCtx(parent context.Context, sp solverSpec, file string, secs, seed int) (status, out string, dur float64) {
	ctx, cancel := context.WithTimeout(parent, time.Duration(secs+5)*time.Second)
	defer cancel()
	args := sp.args(file, secs, seed)
	cmd := exec.CommandContext(ctx, args[0], args[1:]...)
	var buf bytes.Buffer
	cmd.Stdout = &buf
	cmd.Stderr = &buf
	t0 := time.Now()
	_ = cmd.Run()
	dur = time.Since(t0).Seconds()
	out = buf.String()
	first := ""
	for _, ln := range strings.Split(out, "\n") {
		ln = strings.TrimSpace(ln)
		if ln == "" || strings.HasPrefix(ln, "WARNING") || strings.HasPrefix(ln, "(warning") {
			continue // e.g. z3's "cannot be used in patterns" for a trigger the simplifier rewrote
		}
		first = ln
		break
	}
	switch first {
	case "sat", "unsat":
		return first, out, dur
	case "unknown", "timeout":
		return "unknown", out, dur
	}
	if strings.Contains(out, "timeout") {
		return "unknown", out, dur
	}
	return "error", out, dur
}

// solve one query with the portfolio. expectSat: a cover obligation (sat is the good answer).
func solveQuery(name, text, textCVC5 string, budget int, seed int, fp bool) (status, solver, out string, secs float64, file string) {
	file = filepath.Join(workDir, sanitizeFile(name)+".smt2")
	_ = os.WriteFile(file, []byte(text), 0o644)
	// a short solo attempt with the newest z3 settles almost every query in well under a second; what it does not
	// settle in a few seconds is usually settled at once by one of the others, so the race starts early
	first := budget / 10
	if first < 3 {
		first = 3
	}
	if fp {
		first = budget / 2
	}
	t0 := time.Now()
	firstOut := ""
	if !fp {
		st, o, _ := runSolver(solvers[0], file, first, seed)
		if st == "sat" || st == "unsat" {
			return st, "z3-new", o, time.Since(t0).Seconds(), file
		}
		firstOut = o
	}
	raceCtx, cancelRace := context.WithCancel(context.Background())
	defer cancelRace()
	// race all three with the full budget
	type ans struct {
		st, solver, out string
	}
	ch := make(chan ans, 3)
	ctxs := []context.CancelFunc{}
	var wg sync.WaitGroup
	fileC := filepath.Join(workDir, sanitizeFile(name)+".cvc5.smt2")
	_ = os.WriteFile(fileC, []byte(textCVC5), 0o644)
	for i, sp := range solvers {
		wg.Add(1)
		f := file
		if sp.name == "cvc5" {
			f = fileC
		}
		sd := seed + i + 1
		go func(sp solverSpec, f string) {
			defer wg.Done()
			st, o, _ := runSolverCtx(raceCtx, sp, f, budget, sd)
			ch <- ans{st, sp.name, o}
		}(sp, f)
	}
	_ = ctxs
	go func() { wg.Wait(); close(ch) }()
	var errs []string
	best := ans{"unknown", "", firstOut}
	for a := range ch {
		if a.st == "sat" || a.st == "unsat" {
			// first definite answer wins (remaining solvers run out their budget in the background; bounded)
			return a.st, a.solver, a.out, time.Since(t0).Seconds(), file
		}
		if a.st == "error" {
			errs = append(errs, a.solver+": "+firstLines(a.out, 3))
		}
	}
	if len(errs) == 3 {
		return "error", "", strings.Join(errs, " | "), time.Since(t0).Seconds(), file
	}
	return best.st, "", best.out + strings.Join(errs, " | "), time.Since(t0).Seconds(), file
}

func firstLines(s string, n int) string {
	l := strings.Split(strings.TrimSpace(s), "\n")
	if len(l) > n {
		l = l[:n]
	}
	return strings.Join(l, " / ")
}

func sanitizeFile(s string) string {
	r := strings.NewReplacer("/", "_", " ", "_", "*", "P", "(", "", ")", "", ":", "-", "$", "S", "#", "n", "|", "", "@", "a", "<", "lt", ">", "gt")
	s = r.Replace(s)
	if len(s) > 150 {
		// keep the name unique: the tail carries the per-query suffix (~N, .pathK), and a hash stands for what is cut
		h := fnv.New32a()
		h.Write([]byte(s))
		tail := s[len(s)-24:]
		s = fmt.Sprintf("%s_%08x_%s", s[:110], h.Sum32(), tail)
	}
	return s
}

// Solve all obligations of a set of function VCs.
func SolveAll(fvs []*FuncVC, want func(*Obligation) bool, budget, fpBudget, seed int, known *KnownFindings) []*Result {
	type job struct {
		fv      *FuncVC
		o       *Obligation
		extra   string
		region  string
		kf      *KnownFinding
		formula string
		group   int
		guard   string
	}
	var jobs []job
	ngroups := 0
	for _, fv := range fvs {
		for _, o := range fv.Obls {
			if !want(o) {
				continue
			}
			if kf := known.Lookup(o); kf != nil && kf.Status == "open" {
				rt, err := regionTerm(fv, kf)
				if err != nil {
					rt = "!" + err.Error()
				}
				guards := []string{""}
				if len(o.AltGuards) > 1 && len(o.AltGuards) <= 8 {
					guards = o.AltGuards
				}
				for _, part := range splitAnd(o.Formula) {
					for _, g := range guards {
						jobs = append(jobs, job{fv: fv, o: o, extra: rt, region: "outside", kf: kf, formula: part, group: ngroups, guard: g})
					}
				}
				ngroups++
				jobs = append(jobs, job{fv: fv, o: o, extra: rt, region: "inside", kf: kf, formula: o.Formula, group: ngroups})
				ngroups++
				continue
			}
			parts := []string{o.Formula}
			if o.Expect == "" {
				parts = splitAnd(o.Formula)
			}
			guards := []string{""}
			if len(o.AltGuards) > 1 && len(o.AltGuards) <= 8 && strings.Contains(strings.Join(lineStrings(fv.VC.lines[:o.NDecls]), " ")+o.Formula, "fp.") {
				guards = o.AltGuards
			}
			for _, part := range parts {
				for _, g := range guards {
					jobs = append(jobs, job{fv: fv, o: o, formula: part, group: ngroups, guard: g})
				}
			}
			ngroups++
		}
	}
	// query texts are produced sequentially (the VC's caches are not thread-safe)
	type qtext struct{ txt, txtC string }
	texts := make([]qtext, len(jobs))
	altTexts := make([][]qtext, len(jobs))
	for i, j := range jobs {
		extra := ""
		if j.kf != nil && !strings.HasPrefix(j.extra, "!") {
			if j.region == "outside" {
				extra = "(not " + j.extra + ")"
			} else {
				extra = j.extra
			}
		}
		if j.guard != "" {
			extra = and(extra, j.guard)
		}
		texts[i] = qtext{smtTextF(j.fv, j.o, j.formula, extra, false), smtTextF(j.fv, j.o, j.formula, extra, true)}
		// fallback texts, one per return path, for obligations checked at the merged returns: tried when the
		// whole query comes back unknown (quantified goals instantiate badly through the ite-merged results)
		if j.guard == "" && j.o.Expect == "" && len(j.o.AltGuards) > 1 && len(j.o.AltGuards) <= 8 && j.region != "inside" {
			for _, ag := range j.o.AltGuards {
				ex := and(extra, ag)
				altTexts[i] = append(altTexts[i], qtext{smtTextF(j.fv, j.o, j.formula, ex, false), smtTextF(j.fv, j.o, j.formula, ex, true)})
			}
		}
	}
	results := make([]*Result, len(jobs))
	var wg sync.WaitGroup
	sem := make(chan struct{}, 14)
	for i := range jobs {
		wg.Add(1)
		go func(i int) {
			defer wg.Done()
			sem <- struct{}{}
			defer func() { <-sem }()
			j := jobs[i]
			extra := ""
			name := j.o.Name()
			if j.kf != nil {
				rt := j.extra
				if strings.HasPrefix(rt, "!") {
					results[i] = &Result{Obl: j.o, FV: j.fv, Status: "error", Output: "known-finding region: " + rt[1:], Region: j.region}
					return
				}
				if j.region == "outside" {
					extra = "(not " + rt + ")"
				} else {
					extra = rt
				}
				name += "@" + j.region
			}
			txt, txtC := texts[i].txt, texts[i].txtC
			_ = extra
			fp := fpArith.MatchString(txt)
			b := budget
			if fp {
				b = fpBudget
			}
			if j.o.Expect == "sat" {
				b = 8
			}
			if j.region == "inside" {
				b = 10 // a known finding is expected to fail; no point in waiting for a proof
			}
			name += fmt.Sprintf("~%d", i)
			st, solver, out, secs, file := solveQuery(name, txt, txtC, b, seed, fp)
			if st != "unsat" && st != "sat" && st != "error" && len(altTexts[i]) > 0 {
				// path by path
				all := true
				for k, at := range altTexts[i] {
					st2, solver2, out2, secs2, file2 := solveQuery(fmt.Sprintf("%s.path%d", name, k), at.txt, at.txtC, b, seed, fp)
					secs += secs2
					if st2 != "unsat" {
						all = false
						st, solver, out, file = st2, solver2, out2, file2
						break
					}
					solver = solver2
				}
				if all {
					st = "unsat"
				}
			}
			r := &Result{Obl: j.o, FV: j.fv, Solver: solver, Secs: secs, Output: out, File: file, Region: j.region}
			switch {
			case j.o.Expect == "sat":
				switch st {
				case "unsat":
					r.Status = "vacuous"
				case "sat":
					r.Status = "cover-ok"
				case "error":
					r.Status = "error"
				default:
					r.Status = "cover-unknown"
				}
			case st == "unsat":
				r.Status = "proved"
			case st == "sat":
				r.Status = "failed"
				r.Model = parseModel(out)
			case st == "error":
				r.Status = "error"
			default:
				r.Status = "unknown"
			}
			results[i] = r
		}(i)
	}
	wg.Wait()
	// combine the parts of each obligation: the worst status wins
	rank := map[string]int{"proved": 0, "cover-ok": 0, "cover-unknown": 1, "unknown": 2, "error": 3, "failed": 4, "vacuous": 4}
	var combined []*Result
	byGroup := map[int]*Result{}
	for i, r := range results {
		g := jobs[i].group
		c, ok := byGroup[g]
		if !ok {
			byGroup[g] = r
			r.Parts = 1
			combined = append(combined, r)
			continue
		}
		c.Parts++
		if r.Secs > c.Secs && rank[r.Status] >= rank[c.Status] || rank[r.Status] > rank[c.Status] {
			parts := c.Parts
			*c = *r
			c.Parts = parts
		}
	}
	return combined
}

// splitAnd splits a formula at its top-level conjunctions
func splitAnd(f string) []string {
	nodes := parseSx(f)
	if len(nodes) != 1 {
		return []string{f}
	}
	var out []string
	var walk func(n *sx)
	walk = func(n *sx) {
		if !n.leaf && len(n.list) > 1 && n.list[0].leaf && n.list[0].atom == "and" {
			for _, c := range n.list[1:] {
				walk(c)
			}
			return
		}
		out = append(out, n.String())
	}
	walk(nodes[0])
	if len(out) > 12 {
		return []string{f}
	}
	return out
}

func lineStrings(ls []line) []string {
	out := make([]string, len(ls))
	for i, l := range ls {
		out[i] = l.s
	}
	return out
}

// regionTerm translates a known-finding region (a spec expression over the function's inputs) in the function's VC
func regionTerm(fv *FuncVC, kf *KnownFinding) (res string, err error) {
	e, perr := ParseExpr(kf.Region)
	if perr != nil {
		return "", perr
	}
	defer func() {
		if r := recover(); r != nil {
			err = fmt.Errorf("%v", r)
		}
	}()
	vc := fv.VC
	fn := vc.P.fnByKey[fv.Key]
	st := &State{heap: map[string]string{}, ghost: map[string]string{}, hw: "|hw@0|"}
	for _, k := range vc.classOrd {
		st.heap[k] = "|" + k + "@0|"
	}
	env := vc.newSpecEnv(fn, st, st)
	for _, in := range fv.Inputs {
		env.vars[in.Name] = sval{t: in.Term, typ: in.Typ}
	}
	save := vc.lines
	t := env.trBool(e)
	// the region must not need new declarations
	if len(vc.lines) != len(save) {
		// allow: new declarations are appended before use because the query text uses lines[:NDecls]; reject to stay simple
		vc.lines = save
	}
	if len(vc.specErrors) > 0 {
		return "", fmt.Errorf("%s", vc.specErrors[len(vc.specErrors)-1])
	}
	return t, nil
}
