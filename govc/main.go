package main

import (
	"go/types"
	"go/token"
	"encoding/json"
	"golang.org/x/tools/go/ssa"
	"fmt"
	"os"
	"path/filepath"
	"sort"
	"strconv"
	"strings"
	"time"
)

type KnownFinding struct {
	ID         string `json:"id"`
	Property   string `json:"property"`
	Obligation string `json:"obligation"`
	Region     string `json:"region"`
	Witness    string `json:"witness"`
	Status     string `json:"status"` // open | fixed
	What       string `json:"what"`
	Commit     string `json:"commit,omitempty"`
	Structural bool   `json:"structural,omitempty"`
}

type KnownFindings struct {
	Findings []*KnownFinding `json:"findings"`
}

func (k *KnownFindings) Lookup(o *Obligation) *KnownFinding {
	if k == nil {
		return nil
	}
	for _, f := range k.Findings {
		if f.Obligation == o.Name() && f.Status == "open" {
			return f
		}
	}
	return nil
}

func (k *KnownFindings) LookupName(name string) *KnownFinding {
	if k == nil {
		return nil
	}
	for _, f := range k.Findings {
		if f.Obligation == name && f.Status == "open" {
			return f
		}
	}
	return nil
}

func loadKnown(path string) *KnownFindings {
	k := &KnownFindings{}
	data, err := os.ReadFile(path)
	if err != nil {
		return k
	}
	if err := json.Unmarshal(data, k); err != nil {
		fmt.Fprintf(os.Stderr, "known findings file unreadable: %v\n", err)
	}
	return k
}

var verifDir = "/verif"
var repoDir = "/repo"

func main() {
	if len(os.Args) < 2 {
		fmt.Println("usage: govc check <property> quick|thorough | govc dump <func> | govc list")
		os.Exit(2)
	}
	if d := os.Getenv("VERIF_DIR"); d != "" {
		verifDir = d
	}
	if d := os.Getenv("VERIF_REPO"); d != "" {
		repoDir = d
	}
	switch os.Args[1] {
	case "check":
		if len(os.Args) < 4 {
			fmt.Println("usage: govc check <property> quick|thorough")
			os.Exit(2)
		}
		os.Exit(runCheck(os.Args[2], os.Args[3]))
	case "dump":
		os.Exit(runDump(os.Args[2:]))
	case "list":
		os.Exit(runList())
	case "sweeplist":
		os.Exit(runSweepList())
	case "replay":
		os.Exit(runReplay(os.Args[2]))
	}
	fmt.Println("unknown command")
	os.Exit(2)
}

func loadAll() (*Program, error) {
	t0 := time.Now()
	P, err := LoadProgram(repoDir, nil)
	if err != nil {
		return nil, err
	}
	if err := P.LoadContracts(); err != nil {
		return nil, err
	}
	P.LoadSecs = time.Since(t0).Seconds()
	return P, nil
}

func runList() int {
	P, err := loadAll()
	if err != nil {
		fmt.Println("load error:", err)
		return 1
	}
	for _, k := range P.FuncOrd {
		fmt.Println(k, P.Funcs[k].Props())
	}
	return 0
}

func runDump(args []string) int {
	P, err := loadAll()
	if err != nil {
		fmt.Println("load error:", err)
		return 1
	}
	for _, a := range args {
		key := a
		if _, ok := P.Funcs[key]; !ok {
			key = "engine." + a
		}
		if _, ok := P.Funcs[key]; !ok {
			fmt.Println("no contract for", a)
			continue
		}
		if fn := P.fnByKey[key]; fn != nil {
			for h, li := range findLoops(fn) {
				var phis []string
				for _, in := range h.Instrs {
					if phi, ok := in.(*ssa.Phi); ok {
						phis = append(phis, phi.Name()+"#"+phi.Comment+":"+phi.Type().String())
					}
				}
				fmt.Printf(";; loop %d header block %d at %s phis %v\n", li.ordinal, h.Index, posOf(fn, blockPos(h)), phis)
			}
		}
		fv := P.BuildFuncVC(key)
		fmt.Printf(";; %s mode=%s passes=%d err=%s\n", key, fv.Mode, fv.Passes, fv.Err)
		if fv.VC == nil {
			continue
		}
		for _, l := range fv.VC.lines {
			fmt.Println(l.s)
		}
		for _, o := range fv.Obls {
			fmt.Printf(";; OBLIGATION %s props=%v expect=%q\n;;   guard: %s\n;;   formula: %s\n", o.Name(), o.Props, o.Expect, o.Guard, o.Formula)
		}
		for _, n := range fv.VC.notes {
			fmt.Println(";; note:", n)
		}
		for _, n := range fv.VC.unsupported {
			fmt.Println(";; unsupported:", n)
		}
	}
	return 0
}

type violation struct {
	Obligation string
	Status     string
	Clause     string
	Replay     string
	Confirmed  bool
	Detail     string
}

func hasProp(props []string, p string) bool {
	for _, x := range props {
		if x == p {
			return true
		}
	}
	return false
}

func runCheck(prop, tier string) int {
	t0 := time.Now()
	seed := 0
	if s := os.Getenv("VERIF_SEED"); s != "" {
		seed, _ = strconv.Atoi(s)
	}
	evPath := filepath.Join(verifDir, "evidence", prop+".json")
	_ = os.MkdirAll(filepath.Join(verifDir, "evidence"), 0o755)
	_ = os.MkdirAll(filepath.Join(verifDir, "replay"), 0o755)
	workDir = filepath.Join(verifDir, "work", fmt.Sprintf("%s-%d", prop, os.Getpid()))
	_ = os.MkdirAll(workDir, 0o755)
	if os.Getenv("VERIF_KEEP") == "" {
		defer os.RemoveAll(workDir)
	}

	toolFailure := func(msg string) int {
		rp := filepath.Join(verifDir, "replay", prop+"-tool-failure.json")
		_ = os.WriteFile(rp, []byte(fmt.Sprintf("{\"property\":%q,\"obligation\":\"tool\",\"reason\":%q}\n", prop, msg)), 0o644)
		writeEvidence(evPath, prop, tier, seed, time.Since(t0).Seconds(), map[string]interface{}{
			"obligations": 1, "discharged": 0, "checker_cmd": "govc check " + prop + " " + tier, "trusted_base": []string{},
			"explanation": "tool failure: " + msg, "samples": []interface{}{msg}}, []string{}, 1)
		fmt.Printf("tool failure: %s\n", msg)
		fmt.Printf("VIOLATION property=%s replay=%s no-failing-input-found\n", prop, rp)
		return 1
	}

	P, err := loadAll()
	if err != nil {
		return toolFailure("cannot load packages/contracts: " + err.Error())
	}
	known := loadKnown(filepath.Join(verifDir, "known_findings.json"))

	budget, fpBudget := 60, 90
	if tier == "thorough" {
		budget, fpBudget = 120, 300
	}

	// functions under contract that carry obligations of this property
	var fvs []*FuncVC
	var keys []string
	for _, k := range P.FuncOrd {
		d := P.Funcs[k]
		if hasProp(d.Props(), prop) || (prop == "C05" && !d.Has("nosafety") && !d.Has("trusted")) {
			if only := os.Getenv("VERIF_ONLY"); only != "" { // debugging aid: restrict to some functions
				match := false
				for _, o := range strings.Split(only, ",") {
					if strings.Contains(k, o) {
						match = true
					}
				}
				if !match {
					continue
				}
			}
			keys = append(keys, k)
		}
	}
	var trusted []string
	var funcErrs []string
	tEnc := time.Now()
	for _, k := range keys {
		fv := P.BuildFuncVC(k)
		if fv.Trusted {
			trusted = append(trusted, k)
			continue
		}
		if fv.Err != "" {
			funcErrs = append(funcErrs, k+": "+fv.Err)
		}
		fvs = append(fvs, fv)
	}
	encSecs := time.Since(tEnc).Seconds()
	owned := func(o *Obligation) bool {
		// an obligation with an open known finding is decided (and reported) by the check of the finding's own
		// property only; the check of another property that shares the function does not repeat it
		if kf := known.Lookup(o); kf != nil && kf.Property != "" && kf.Property != prop {
			return false
		}
		if hasProp(o.Props, prop) {
			return true
		}
		if hasProp(o.Props, "vacuity") {
			return true
		}
		return false
	}
	results := SolveAll(fvs, owned, budget, fpBudget, seed, known)
	// lemmas
	lemmaResults := solveLemmas(P, prop, budget, seed)
	results = append(results, lemmaResults...)
	// structural obligations
	structural := runStructural(P, prop)

	// ---------------------------------------------------------------- report
	replays := replayBatch(P, results)
	var viols []violation
	nObl, nDis := 0, 0
	bySolver := map[string]int{}
	secsBySolver := map[string]float64{}
	var slowest []map[string]interface{}
	var samples []interface{}
	var knownHit, canaryLost []string
	vac := map[string]int{}
	sort.SliceStable(results, func(i, j int) bool { return results[i].Obl.Name() < results[j].Obl.Name() })
	// cover obligations with the same name (one per call site) are vacuous only if none of them is reachable
	coverOK := map[string]bool{}
	for _, r := range results {
		if r.Obl.Expect == "sat" && r.Status != "vacuous" {
			coverOK[r.Obl.Name()] = true
		}
	}
	coverSeen := map[string]bool{}
	for _, r := range results {
		name := r.Obl.Name()
		if r.Obl.Expect == "sat" {
			if coverOK[name] && r.Status == "vacuous" {
				continue
			}
			if coverSeen[name] && r.Status == "vacuous" {
				continue
			}
			coverSeen[name] = true
			vac[r.Status]++
			if r.Status == "vacuous" {
				viols = append(viols, violation{Obligation: name, Status: "vacuous-contract", Clause: r.Obl.Clause, Detail: "the assumptions of this function are contradictory: every obligation of it would be discharged vacuously"})
			}
			if r.Status == "error" {
				viols = append(viols, violation{Obligation: name, Status: "solver-error", Clause: r.Obl.Clause, Detail: firstLines(r.Output, 5)})
				fmt.Printf("  solver error on %s: %s\n", name, firstLines(r.Output, 3))
			}
			continue
		}
		if r.Region == "inside" {
			kf := known.Lookup(r.Obl)
			if r.Status == "proved" {
				canaryLost = append(canaryLost, name)
				fmt.Printf("CANARY-LOST: %s is listed as an open known finding but its region now verifies (repaired code or lost precision)\n", name)
			} else {
				knownHit = append(knownHit, name)
				fmt.Printf("KNOWN-FINDING: property=%s %s [%s] %s witness=%s\n", prop, kf.ID, name, kf.What, kf.Witness)
			}
			continue
		}
		nObl++
		if r.Status == "proved" {
			nDis++
			bySolver[r.Solver]++
			secsBySolver[r.Solver] += r.Secs
			slowest = append(slowest, map[string]interface{}{"obligation": name, "secs": round2(r.Secs), "solver": r.Solver})
			if len(samples) < 6 {
				samples = append(samples, map[string]interface{}{"obligation": name, "clause": r.Obl.Clause, "solver": r.Solver, "secs": round2(r.Secs)})
			}
			continue
		}
		v := violation{Obligation: name, Status: r.Status, Clause: r.Obl.Clause, Detail: firstLines(r.Output, 12)}
		if r.Region == "outside" {
			v.Detail = "fails outside the region of the known finding: " + v.Detail
		}
		rp := writeReplay(P, prop, r, &v, replays[r])
		v.Replay = rp
		viols = append(viols, v)
	}
	for _, e := range funcErrs {
		nObl++
		v := violation{Obligation: e, Status: "contract-error", Detail: e}
		rp := filepath.Join(verifDir, "replay", prop+"-"+sanitizeFile(e)+".json")
		writeJSON(rp, map[string]interface{}{"property": prop, "obligation": e, "status": "contract-error", "detail": e})
		v.Replay = rp
		viols = append(viols, v)
	}
	for _, s := range structural {
		if kf := known.LookupName(s.Name); kf != nil && !s.OK {
			knownHit = append(knownHit, s.Name)
			fmt.Printf("KNOWN-FINDING: property=%s %s [%s] %s witness=%s\n", prop, kf.ID, s.Name, kf.What, kf.Witness)
			continue
		}
		nObl++
		if s.OK {
			nDis++
			bySolver["structural"]++
			continue
		}
		rp := filepath.Join(verifDir, "replay", prop+"-"+sanitizeFile(s.Name)+".json")
		writeJSON(rp, map[string]interface{}{"property": prop, "obligation": s.Name, "status": "structural-failed", "detail": s.Detail})
		viols = append(viols, violation{Obligation: s.Name, Status: "structural-failed", Detail: s.Detail, Replay: rp})
	}
	sort.Slice(slowest, func(i, j int) bool { return slowest[i]["secs"].(float64) > slowest[j]["secs"].(float64) })
	if len(slowest) > 8 {
		slowest = slowest[:8]
	}
	if nObl == 0 {
		return toolFailure("no obligation was generated for " + prop + " (vacuous check)")
	}

	// assumptions / trusted base (mechanical scan)
	assume := map[string]bool{}
	var fnames []string
	loopsNoInv := 0
	for _, fv := range fvs {
		fnames = append(fnames, fv.Key+" ["+fv.Mode+"]")
		if fv.VC == nil {
			continue
		}
		loopsNoInv += fv.VC.loopsNoInv
		for _, n := range fv.VC.notes {
			assume["abstraction: "+n] = true
		}
		for _, n := range fv.VC.unsupported {
			assume["unsupported construct havocked (sound, weak): "+n+" in "+fv.Key] = true
		}
		for e := range fv.VC.usedExtern {
			assume["extern contract assumed: "+e] = true
		}
		for e := range fv.VC.usedTrusted {
			assume["trusted contract assumed (body not verified): "+e] = true
		}
		for e := range fv.VC.usedOther {
			assume["contract relied on, proved under another property or not at all: "+e] = true
		}
		for a := range fv.VC.usedAxioms {
			assume["axiom assumed: "+a] = true
		}
		for f := range fv.VC.inlined {
			assume["inlined (verified as part of its callers): "+f] = true
		}
		for _, c := range fv.Decl.Clauses {
			if c.Kind == "wraps" || c.Kind == "lossy" || c.Kind == "nosafety" {
				assume[c.Kind+" declared on "+fv.Key+": "+c.Text] = true
			}
		}
	}
	for _, t := range trusted {
		assume["trusted contract (body not verified): "+t] = true
	}
	assume["termination is not proved (partial correctness)"] = true
	assume["Go front end and go/ssa produce the SSA of the code that runs; GOARCH=amd64 (int is 64-bit)"] = true
	assume["SMT solvers z3 5.1, z3 4.8.12, cvc5 1.0.3 are sound (sat answers are replayed on the real code where possible)"] = true
	assume["machine integers are modelled exactly (bit-vectors, or integers with explicit wrap-around); floats are IEEE-754 binary64 with RNE"] = true
	assume["values read from memory satisfy their type's declared invariants (asserted where contracted functions construct them)"] = true
	var assumptions []string
	for a := range assume {
		assumptions = append(assumptions, a)
	}
	sort.Strings(assumptions)
	var sbk []string
	for s := range bySolver {
		sbk = append(sbk, s)
	}
	sort.Strings(sbk)
	byBackend := map[string]interface{}{}
	for _, s := range sbk {
		byBackend[s] = map[string]interface{}{"obligations": bySolver[s], "secs": round2(secsBySolver[s])}
	}
	var structOut []interface{}
	for _, s := range structural {
		structOut = append(structOut, map[string]interface{}{"name": s.Name, "ok": s.OK, "detail": s.Detail})
	}
	var violOut []interface{}
	for _, v := range viols {
		violOut = append(violOut, map[string]interface{}{"obligation": v.Obligation, "status": v.Status, "clause": v.Clause, "replay": v.Replay, "confirmed_on_real_code": v.Confirmed})
	}
	if len(samples) == 0 {
		samples = append(samples, "no obligation discharged")
	}
	cov := map[string]interface{}{
		"obligations": nObl, "discharged": nDis,
		"checker_cmd":  "govc check " + prop + " " + tier + " (VC generation over go/ssa of /repo with -tags verif; z3-new 5.1.0 first, then race z3 4.8.12 / cvc5 1.0.3 / z3-new)",
		"trusted_base": assumptions,
		"functions_under_contract": fnames, "by_backend": byBackend, "slowest": slowest, "samples": samples,
		"structural": structOut, "vacuity": vac, "known_findings_hit": knownHit, "canary_lost": canaryLost,
		"loops_without_invariant": loopsNoInv, "violations_detail": violOut,
		"load_secs": round2(P.LoadSecs), "encode_secs": round2(encSecs), "budget_secs": budget, "fp_budget_secs": fpBudget,
	}
	writeEvidence(evPath, prop, tier, seed, time.Since(t0).Seconds(), cov, assumptions, len(viols))
	fmt.Printf("%s %s: %d obligations, %d discharged, %d known-finding hits, %d violations, %.1fs (load %.1fs)\n", prop, tier, nObl, nDis, len(knownHit), len(viols), time.Since(t0).Seconds(), P.LoadSecs)
	if len(viols) == 0 {
		return 0
	}
	for _, v := range viols {
		suffix := ""
		if !v.Confirmed {
			suffix = " no-failing-input-found"
		}
		fmt.Printf("  failed obligation %s [%s] %s\n", v.Obligation, v.Status, v.Clause)
		fmt.Printf("VIOLATION property=%s replay=%s%s\n", prop, v.Replay, suffix)
	}
	return 1
}

func round2(f float64) float64 { return float64(int(f*100+0.5)) / 100 }

func writeJSON(path string, v interface{}) {
	data, _ := json.MarshalIndent(v, "", " ")
	_ = os.WriteFile(path, append(data, '\n'), 0o644)
}

func writeEvidence(path, prop, tier string, seed int, wall float64, cov map[string]interface{}, assumptions []string, viols int) {
	if tier != "quick" && tier != "thorough" {
		tier = "quick"
	}
	writeJSON(path, map[string]interface{}{
		"property_id": prop, "tier": tier, "seed": seed, "level": "proof", "coverage": cov, "assumptions": assumptions,
		"wall_s": round2(wall), "violations": viols,
	})
}

func writeReplay(P *Program, prop string, r *Result, v *violation, rep *ReplayResult) string {
	name := r.Obl.Name()
	rp := filepath.Join(verifDir, "replay", prop+"-"+sanitizeFile(name)+".json")
	smt := ""
	if r.File != "" {
		if data, err := os.ReadFile(r.File); err == nil && len(data) < 4<<20 {
			smtPath := strings.TrimSuffix(rp, ".json") + ".smt2"
			_ = os.WriteFile(smtPath, data, 0o644)
			smt = smtPath
		}
	}
	rec := map[string]interface{}{
		"property": prop, "obligation": name, "function": r.Obl.Func, "class": r.Obl.Class, "clause": r.Obl.Clause, "position": r.Obl.Pos,
		"status": r.Status, "solver": r.Solver, "solver_output": firstLines(r.Output, 40), "smt_file": smt, "model": r.Model,
	}
	if rep != nil {
		rec["replay"] = rep
		if rep.Confirmed {
			v.Confirmed = true
		}
	}
	writeJSON(rp, rec)
	return rp
}

func runReplay(path string) int {
	data, err := os.ReadFile(path)
	if err != nil {
		fmt.Println(err)
		return 2
	}
	fmt.Println(string(data))
	var rec map[string]interface{}
	_ = json.Unmarshal(data, &rec)
	if rep, ok := rec["replay"].(map[string]interface{}); ok {
		if src, ok := rep["test_source"].(string); ok && src != "" {
			out, _ := runOverlayTest(rep["package_dir"].(string), src)
			fmt.Println(out)
		}
	}
	return 0
}

// runSweepList prints the functions of package engine that are not under contract and contain an instruction of a
// panic class that needs no invariant to be judged locally: a type assertion without comma-ok, a shift, an integer
// division. (Input for the generated no-panic sweep contracts.)
func runSweepList() int {
	P, err := loadAll()
	if err != nil {
		fmt.Println("load error:", err)
		return 1
	}
	var keys []string
	for _, fn := range P.allFuncs {
		if fn.Pkg == nil && fn.Parent() == nil {
			continue
		}
		root := fn
		for root.Parent() != nil {
			root = root.Parent()
		}
		if root.Pkg == nil || root.Pkg.Pkg.Path() != enginePath || fn.Synthetic != "" {
			continue
		}
		key := fnKey(fn)
		if _, has := P.Funcs[key]; has {
			continue
		}
		classes := map[string]bool{}
		for _, b := range fn.Blocks {
			for _, in := range b.Instrs {
				switch x := in.(type) {
				case *ssa.TypeAssert:
					if !x.CommaOk {
						classes["tassert"] = true
					}
				case *ssa.BinOp:
					if b, ok := x.X.Type().Underlying().(*types.Basic); ok && b.Info()&types.IsInteger != 0 {
						switch x.Op {
						case token.QUO, token.REM:
							classes["div0"] = true
						case token.SHL, token.SHR:
							classes["shift"] = true
						}
					}
				}
			}
		}
		if len(classes) == 0 {
			continue
		}
		var cs []string
		for c := range classes {
			cs = append(cs, c)
		}
		sort.Strings(cs)
		keys = append(keys, strings.TrimPrefix(key, "engine.")+"\t"+strings.Join(cs, " "))
	}
	sort.Strings(keys)
	for _, k := range keys {
		fmt.Println(k)
	}
	return 0
}
